"""C10 — Append merges timing, scaling and properties by the documented rules only."""
from __future__ import annotations

import datetime as dt
import itertools

import numpy as np

from props import wfm_harness as H
from props.common import base_of, outcome, show

PID = "C10"
LEAN_MODULE = "NiVerif.Props.C10"
NAMESPACE = "Props.C10"
DRIVER = "drivers/Wfm.lean"
GEN_MODULES = ["ExtProps", "AppendTiming"]
EXTRA_LEAN_MODULES = ["NiVerif.Model.WfmProto", "NiVerif.Props.ExtProps"]
THEOREMS = ["appendTiming_rules", "foldTiming_rules", "mergeProps_lookup", "mergeProps_prefix", "copyAll_props",
            "foldTiming_warn_kind", "appendWaveforms_unfold", "append_rules", "append_refusals",
            "array_needs_timestamps_iff_irregular",
            "gen_merge_lookup", "gen_merge_prefix", "gen_merge_fold", "Props.ExtProps.gen_merge_eq_model", "Props.ExtProps.gen_merge_notifies_iff",
            "gen_append_timing_eq_model", "gen_append_timestamps_eq_model"]
RULE = ("the whole matrix receiver mode (NONE/REGULAR/IRREGULAR) x source mode x interval equal/different x scale mode "
        "equal/different x property keys (disjoint / overlapping / conflicting / NI_LineNames) x one or several sources x "
        "dtype / signal-count match or mismatch x owned or borrowed (full) receiver buffer, for Analog / Complex / "
        "Digital waveforms and Spectrum, enumerated exhaustively, plus seeded repeated appends; every cell is executed on "
        "the real objects, judged by the property's rules (oracle) and compared with Model/Wfm.lean")
TRUSTED = ["hand model NiVerif/Model/Wfm.lean (append part: per-source checks, _append_timing fold, capacity growth, copy "
           "loop, _merge) compared with the real objects in every cell"]
ASSUMPTIONS = ["warnings are compared as the set of warning classes emitted", "timestamps of one family (datetime)"]


def timing_specs():
    return {"none": None, "N": ("N", 7), "R1": ("R", 1, 0), "R2": ("R", 2, 3), "I": "I"}


def empty_irregular_receiver_cases(ctx, report):
    """append([...]) into receivers whose irregular timing holds no timestamps yet (and some that hold a few), with every pattern of empty
    and non-empty sources: afterwards every source, every Timing object a source held (possibly shared with a bystander waveform) and the
    caller's list are exactly what they were; `report(info)` is called for each difference"""
    import itertools as _it
    import numpy as _np
    from nitypes.waveform import AnalogWaveform, ComplexWaveform, DigitalWaveform, SampleIntervalMode, Timing
    t0 = dt.datetime(2025, 1, 1, tzinfo=dt.timezone.utc)
    n = 0
    for cls in (AnalogWaveform, ComplexWaveform, DigitalWaveform):
        def mk(k, start, timing=None):
            tm = timing if timing is not None else Timing.create_with_irregular_interval([t0 + dt.timedelta(seconds=start + i) for i in range(k)])
            if cls is DigitalWaveform:
                return DigitalWaveform(k, 1, timing=tm)
            return cls(k, _np.float64 if cls is AnalogWaveform else _np.complex128, timing=tm)
        for rn in (0, 2):
            for lens in _it.chain.from_iterable(_it.product((0, 1, 2), repeat=r) for r in (1, 2, 3, 4)):
                for tail in ("ok", "non-monotonic", "regular"):
                    if tail != "ok" and (len(lens) < 2 or lens[-1] == 0):
                        continue
                    recv = mk(rn, 0)
                    srcs, start = [], 10
                    for k in lens:
                        srcs.append(mk(k, start)); start += max(k, 1) + 1
                    if tail == "non-monotonic":
                        srcs[-1] = mk(lens[-1], -50)
                    elif tail == "regular":
                        srcs[-1] = mk(lens[-1], 0, Timing.create_with_regular_interval(dt.timedelta(seconds=1)))
                    held = [x.timing for x in srcs]
                    bystanders = [mk(len(h._timestamps) if h._timestamps is not None else 0, 0, h) if h.sample_interval_mode == SampleIntervalMode.IRREGULAR else None for h in held]
                    snap = [(x.sample_count, None if h._timestamps is None else list(h._timestamps), repr(h)) for x, h in zip(srcs, held)]
                    o = outcome(recv.append, srcs if len(srcs) > 1 else srcs[0])
                    n += 1
                    ctx.case(("empty-irregular-receiver", cls.__name__, rn, lens, tail))
                    for i, (x, h) in enumerate(zip(srcs, held)):
                        now = (x.sample_count, None if h._timestamps is None else list(h._timestamps), repr(h))
                        same_obj = x.timing is h
                        by = bystanders[i]
                        by_ok = by is None or (by.timing is h and outcome(lambda: len(list(by.timing.get_timestamps(0, by.sample_count))))[0] == "ok")
                        if now != snap[i] or not same_obj or not by_ok:
                            report(dict(what="an append changed one of its sources / a Timing object a source held", cls=cls.__name__, receiver_timestamps=rn, source_lengths=str(lens), last_source=tail, source=i,
                                        call_outcome=show(o)[:80], observed=f"{now[0]} samples, {None if now[1] is None else len(now[1])} timestamps", required=f"{snap[i][0]} samples, {None if snap[i][1] is None else len(snap[i][1])} timestamps, the same Timing object"))
                            return n
    return n


def run(ctx):
    # ExtendedPropertyDictionary as regenerated from the source (tier T14: Gen/ExtProps.lean) against the real class with a listener
    from props import extprops_harness
    ctx.extra["ext_props_lines"] = extprops_harness.ext_props_cases(ctx)
    rng = ctx.rng
    world = H.World(rng)
    cells = 0
    PROPS = [({}, {}), ({"a": "1"}, {"b": "2"}), ({"a": "1", "b": "x"}, {"b": "2", "c": "3"}), ({"k": "r"}, {"k": "s"}),
             ({}, {H.LINE_NAMES: "p, q"})]

    def judge(kind, recv_name, src_names, rec, before_recv, src_snaps, r_spec, s_specs, scales, r_scale):
        """The property's rules, on observations of the real objects."""
        f = lambda s: dict(x.split("=", 1) for x in s.split(" "))
        if any("UNOBSERVABLE" in x for x in [before_recv] + list(src_snaps) + [rec["after"].get(recv_name, "")]):
            ctx.violation(what="a waveform can no longer be observed", cell=rec["line"], observed="UNOBSERVABLE", required="a consistent waveform")
            return
        b = f(before_recv)
        srcs = [f(x) for x in src_snaps]
        dt_ok = all(s["dtype"] == b["dtype"] for s in srcs)
        sig_ok = all(s["ncols"] == b["ncols"] for s in srcs) or kind != "digital"
        rmode = b["timing"][0]
        smodes = [s["timing"][0] for s in srcs]
        st = lambda x: [] if x["timing"].split(":")[2] == "_" else [int(v) for v in x["timing"].split(":")[2].split(",")]
        # first loop of _append_waveforms: dtype, then (digital) signal count, per source in order
        want = None
        for s in srcs:
            if s["dtype"] != b["dtype"]:
                want = "TypeError"; break
            if kind == "digital" and s["ncols"] != b["ncols"]:
                want = "ValueError"; break
        # second loop: timing, per source in order (mode compatibility, then monotonic concatenation)
        if want is None and kind != "spectrum":
            acc, accmode = st(b), rmode
            for s, m in zip(srcs, smodes):
                if (accmode in "NR") != (m in "NR"):
                    want = "RuntimeError"; break
                if accmode == "I":
                    nxt = st(s)
                    if acc and nxt:
                        cat = acc + nxt
                        if not (all(x <= y for x, y in zip(cat, cat[1:])) or all(x >= y for x, y in zip(cat, cat[1:]))):
                            want = "ValueError"; break
                        acc = cat
                    elif nxt:
                        acc = nxt
        grow = int(b["start"]) + int(b["count"]) + sum(int(s["count"]) for s in srcs) > int(b["cap"])
        if rec["err"] is not None:
            if want is None and not (grow and rec["err"][0] == "ValueError"):
                ctx.violation(what="append refused", cell=rec["line"], recv=before_recv[:200], observed=rec["err"],
                              required="success (dtypes, signal counts and timing modes are compatible)")
            elif want is not None and rec["err"][0] != want:
                ctx.violation(what="append error class", cell=rec["line"], observed=rec["err"], required=want)
            if want == "RuntimeError" and rec["err"][1] not in ("SampleIntervalModeMismatchError", "TimingMismatchError"):
                ctx.violation(what="append error class", cell=rec["line"], observed=rec["err"], required="TimingMismatchError")
            if want == "TypeError" and rec["err"][1] != "DatatypeMismatchError":
                ctx.violation(what="append error class", cell=rec["line"], observed=rec["err"], required="DatatypeMismatchError")
            return
        if want is not None:
            ctx.violation(what="append accepted", cell=rec["line"], observed="ok", required=want)
            return
        a = f(rec["after"][recv_name])
        rows = lambda x: [] if x["data"] == "_" else x["data"].split("|")
        exp = rows(b)
        for s in srcs:
            exp = exp + rows(s)
        if rows(a) != exp:
            ctx.violation(what="samples", cell=rec["line"], observed=a["data"][:200], required="|".join(exp)[:200])
        if kind != "spectrum":
            if rmode in "NR" and a["timing"] != b["timing"]:
                ctx.violation(what="receiver timing changed", cell=rec["line"], observed=a["timing"], required=b["timing"])
            if rmode == "I":
                st = lambda x: [] if x["timing"].split(":")[2] == "_" else x["timing"].split(":")[2].split(",")
                cat = st(b)
                for s in srcs:
                    cat = cat + st(s)
                if st(a) != cat:
                    ctx.violation(what="irregular concat", cell=rec["line"], observed=a["timing"], required=",".join(cat))
            want_t = rmode in "NR" and any(s["timing"].split(":")[1] != b["timing"].split(":")[1] for s in srcs)
            if ("T" in rec["warn"]) != want_t:
                ctx.violation(what="TimingMismatchWarning", cell=rec["line"], observed=rec["warn"], required=want_t)
        want_s = kind in ("analog", "complex") and any(s["scale"] != b["scale"] for s in srcs)
        if ("S" in rec["warn"]) != want_s:
            ctx.violation(what="ScalingMismatchWarning", cell=rec["line"], observed=rec["warn"], required=want_s)
        if a["scale"] != b["scale"]:
            ctx.violation(what="scale mode changed", cell=rec["line"], observed=a["scale"], required=b["scale"])
        # properties: receiver first (unchanged), then new keys in first-writer order
        pl = lambda x: [] if x["props"] == "_" else [tuple(p.split("=", 1)) for p in x["props"].split(";")]
        expp = list(pl(b))
        keys = {k for k, _ in expp}
        for s in srcs:
            for k, v in pl(s):
                if k not in keys:
                    expp.append((k, v)); keys.add(k)
        if pl(a) != expp:
            ctx.violation(what="extended properties", cell=rec["line"], observed=a["props"], required=str(expp))
        for n, snap in zip(src_names, src_snaps):
            if n == recv_name:
                continue        # the receiver appended to itself: it is the one object that is meant to change
            if rec["after"][n] != snap:
                ctx.violation(what="source modified", cell=rec["line"], observed=rec["after"][n][:200], required=snap[:200])

    kinds = ["analog", "complex", "digital", "spectrum"]
    modes = ["none", "N", "R1", "R2", "I"]
    for kind in kinds:
        tag = H.SUPPORTED[kind][0] if kind != "digital" else 6
        other_tag = H.SUPPORTED[kind][1]
        kmodes = modes if kind != "spectrum" else ["none"]
        for rm, nsrc in itertools.product(kmodes, [1, 2]):
            for sms in itertools.product(kmodes, repeat=nsrc):
                for variant in range(6 if not ctx.quick else 3):
                    world.objs = {}
                    ncols = rng.randint(1, 3) if kind == "digital" else 1
                    rp, sp = PROPS[(cells + variant) % len(PROPS)]
                    r_scale = rng.choice([0, 1]) if kind in ("analog", "complex") else 0
                    rrows = world.mk_values(tag, rng.choice([0, 1, 3]), ncols, kind == "digital")
                    junction = {"last": None}

                    def tspec(m, n, lo):
                        if m == "I":
                            if junction["last"] is not None and rng.random() < 0.6:
                                # continue at (or next to) the previous last timestamp, in either direction, plateaus allowed:
                                # the cases in which only the whole concatenation decides monotonicity
                                cur = junction["last"] + rng.choice([0, 0, 1, -1, 2])
                                d = rng.choice([1, 1, -1])
                                st = []
                                for _k in range(n):
                                    st.append(cur)
                                    cur += d * rng.choice([0, 1, 1, 3])
                            else:
                                st = sorted(rng.randint(lo, lo + 9) for _ in range(n))
                                if rng.random() < 0.25:
                                    st = st[::-1]
                            if st:
                                junction["last"] = st[-1]
                            return ("I", st)
                        return timing_specs()[m]
                    rname = world.fresh()
                    extra = rng.choice([0, 0, 4])
                    borrowed = variant % 3 == 2
                    recv = H.make_wfm(world, rname, kind, tag, rrows, ncols, tspec(rm, len(rrows), 0), r_scale, rp,
                                      extra_cap=extra, borrowed=borrowed)
                    if recv is None:
                        continue
                    snames, scales = [], []
                    lo = 10
                    for i, sm in enumerate(sms):
                        sn = world.fresh()
                        st = tag if rng.random() < 0.9 else other_tag
                        sc = ncols if (kind != "digital" or rng.random() < 0.88) else (ncols % 3) + 1
                        srows = world.mk_values(st, rng.choice([0, 1, 2]), sc, kind == "digital")
                        sscale = rng.choice([r_scale, r_scale, 2]) if kind in ("analog", "complex") else 0
                        up = rng.random() < 0.85
                        sspec = tspec(sm, len(srows), lo if up else -20)
                        lo += 10
                        # later sources carry the same keys with other values: the earliest source must win
                        props = dict(sp) if i == 0 else {**{k: v + f"#{i}" for k, v in sp.items()}, "z": str(i), "a": "late"}
                        if H.make_wfm(world, sn, kind, st, srows, sc, sspec, sscale, props) is None:
                            break
                        snames.append(sn); scales.append(sscale)
                    if len(snames) != nsrc:
                        continue
                    before = world.snap(kind, recv)
                    ssnaps = [world.snap(kind, world.objs[n][1]) for n in snames]
                    src_timings = [getattr(world.objs[n][1], "_timing", None) for n in snames]
                    real = [world.objs[n][1] for n in snames]
                    arg = real[0] if nsrc == 1 and variant % 2 == 0 else real
                    world.run(f"wappw {rname} {','.join(snames)}", lambda: recv.append(arg), rname, kind)
                    rec = world.records[-1]
                    if rec["err"] is None:
                        world.expect[-1] = "ok " + rec["after"][rname] + " warn=" + ("_" if not rec["warn"] else ",".join(rec["warn"]))
                    judge(kind, rname, snames, rec, before, ssnaps, rm, sms, scales, r_scale)
                    for n, t in zip(snames, src_timings):
                        if getattr(world.objs[n][1], "_timing", None) is not t:
                            ctx.violation(what="source timing object replaced", cell=rec["line"], observed=n, required="same object")
                    cells += 1
                    ctx.case((kind, rm, sms, variant))
                    ctx.count("cell", f"{kind}:{rm}<-{'+'.join(sms)}")
                    ctx.count("outcome", "ok" if rec["err"] is None else rec["err"][1])
    # irregular junction sweep: every small receiver x source(s) timestamp pattern — equal junctions, plateaus, reversals
    RECV = [[0, 1], [1, 0], [1, 1], [1], []]
    SRC = [[1, 0], [1, 2], [1, 1], [0, 1], [2, 1], [1], [], [1, 1, 0], [0, 0, 1], [1, 1, 2]]
    combos = [(r, [a]) for r in RECV for a in SRC] + [(r, [a, b]) for r in RECV for a in SRC for b in SRC]
    if ctx.quick:
        combos = combos[:len(RECV) * len(SRC)] + rng.sample(combos[len(RECV) * len(SRC):], 150)
    for kind in ("analog", "digital"):
        tag = H.SUPPORTED[kind][0] if kind != "digital" else 6
        for rst, slist in combos:
            world.objs = {}
            rname = world.fresh()
            recv = H.make_wfm(world, rname, kind, tag, world.mk_values(tag, len(rst), 1, kind == "digital"), 1, ("I", rst), 0, {"k": "r"},
                              extra_cap=rng.choice([0, 6]))
            if recv is None:
                continue
            snames = []
            for i, sst in enumerate(slist):
                sn = world.fresh()
                if H.make_wfm(world, sn, kind, tag, world.mk_values(tag, len(sst), 1, kind == "digital"), 1, ("I", sst), 0,
                              {"k": f"s{i}", "n": f"v{i}"}) is None:
                    break
                snames.append(sn)
            if len(snames) != len(slist):
                continue
            before = world.snap(kind, recv)
            ssnaps = [world.snap(kind, world.objs[n][1]) for n in snames]
            real = [world.objs[n][1] for n in snames]
            world.run(f"wappw {rname} {','.join(snames)}", lambda: recv.append(real if len(real) > 1 or rng.random() < 0.5 else real[0]), rname, kind)
            rec = world.records[-1]
            if rec["err"] is None:
                world.expect[-1] = "ok " + rec["after"][rname] + " warn=" + ("_" if not rec["warn"] else ",".join(rec["warn"]))
            judge(kind, rname, snames, rec, before, ssnaps, "I", ["I"] * len(slist), [0] * len(slist), 0)
            cells += 1
            ctx.case((kind, "junction", tuple(rst), tuple(map(tuple, slist))))
            ctx.count("junction-outcome", "ok" if rec["err"] is None else rec["err"][1])
    ctx.exhaustive = True
    ctx.extra["matrix_cells"] = cells
    # appending an array requires timestamps exactly when the receiver is IRREGULAR
    for kind in ("analog", "digital"):
        for rm in ("none", "R1", "I"):
            for with_ts in (False, True):
                world.objs = {}
                tag = H.SUPPORTED[kind][0] if kind != "digital" else 6
                rows = world.mk_values(tag, 2, 1, kind == "digital")
                name = world.fresh()
                spec = ("I", [1, 2]) if rm == "I" else timing_specs()[rm]
                o = H.make_wfm(world, name, kind, tag, rows, 1, spec, 0, {})
                arr = world.mk_array(tag, world.mk_values(tag, 2, 1, kind == "digital"), 2 if kind == "digital" else 1)
                ts = [H.BASE + dt.timedelta(seconds=5), H.BASE + dt.timedelta(seconds=6)] if with_ts else None
                rec = world.run(f"wappa {name} {world.arr_token(arr)} {'5,6' if with_ts else '-'} 1",
                                lambda: o.append(arr, ts), name, kind)
                ok = rec["err"] is None
                if ok != ((rm == "I") == with_ts):
                    ctx.violation(what="array append timestamps", mode=rm, with_timestamps=with_ts, observed=rec["err"],
                                  required="timestamps required exactly for IRREGULAR receivers")
                ctx.case(("arr", kind, rm, with_ts))
    # ... also when the timestamps argument is present but empty (a provided argument is not an absent one), with
    # zero-length and non-empty arrays, and timestamps are never accepted together with waveform sources
    from nitypes.waveform import AnalogWaveform, ComplexWaveform, DigitalWaveform, Timing, LinearScaleMode, NO_SCALING
    import warnings as _w
    B = H.BASE
    def mk_plain(kind, timing, n=2, scale=None):
        if kind == "digital":
            return DigitalWaveform.from_lines(np.arange(n, dtype=np.uint8).reshape(n, 1) % 2, timing=timing)
        cls, dty = (AnalogWaveform, np.float64) if kind == "analog" else (ComplexWaveform, np.complex128)
        kw = {} if scale is None else {"scale_mode": scale}
        return cls.from_array_1d(np.arange(n).astype(dty), dty, timing=timing, **kw)
    TIM = {"none": lambda: Timing.empty, "N": lambda: Timing.create_with_no_interval(B),
           "R": lambda: Timing.create_with_regular_interval(dt.timedelta(seconds=1), B),
           "I": lambda: Timing.create_with_irregular_interval([B, B + dt.timedelta(seconds=1)])}
    for kind in ("analog", "complex", "digital"):
        for rm in TIM:
            for tsname, mkts in (("None", lambda n: None), ("[]", lambda n: []), ("()", lambda n: ()), ("n", lambda n: [B + dt.timedelta(seconds=5 + k) for k in range(n)]),
                                 ("n+1", lambda n: [B + dt.timedelta(seconds=5 + k) for k in range(n + 1)])):
                for n in (0, 1, 2):
                    w = mk_plain(kind, TIM[rm]())
                    arr = (np.zeros((n, 1), np.uint8) if kind == "digital" else np.zeros(n, w.dtype))
                    ts = mkts(n)
                    before = world.snap(kind, w)
                    o = outcome(w.append, arr, ts)
                    want_ok = ((rm == "I") == (ts is not None)) and (ts is None or len(ts) == n)
                    if (o[0] == "ok") != want_ok:
                        ctx.violation(what="array append timestamps", kind=kind, mode=rm, timestamps=tsname, array_len=n, observed=str(o)[:160],
                                      required="accepted" if want_ok else "refused: timestamps are required exactly for IRREGULAR receivers, one per sample")
                    elif o[0] != "ok" and world.snap(kind, w) != before:
                        ctx.violation(what="refused append changed the receiver", kind=kind, mode=rm, timestamps=tsname, array_len=n,
                                      observed=world.snap(kind, w)[:160], required=before[:160])
                    ctx.case(("arr-ts", kind, rm, tsname, n))
                    # waveform sources never take a timestamps argument, empty or not
                    if ts is not None:
                        src = mk_plain(kind, TIM[rm]())
                        for arg in (src, [src]):
                            w2 = mk_plain(kind, TIM[rm]())
                            o2 = outcome(w2.append, arg, ts)
                            if o2[0] == "ok":
                                ctx.violation(what="waveform append accepted a timestamps argument", kind=kind, mode=rm, timestamps=tsname,
                                              observed="ok", required="ValueError")
    # scale modes that differ by as little as one unit in the last place are different scale modes: the warning is about
    # equality of (gain, offset), not closeness
    import math
    def near(x, k):
        for _ in range(abs(k)):
            x = math.nextafter(x, math.inf if k > 0 else -math.inf)
        return x
    for case in range(120 if ctx.quick else 2000):
        kind = rng.choice(["analog", "complex"])
        g = rng.choice([1.0, 2.0, 0.5, 1e-3, 1234.5678, rng.uniform(0.1, 100.0), -3.0, 1e12])
        off = rng.choice([0.0, 0.5, -1.25, rng.uniform(-10, 10), 1e-9, 1e6])
        c = rng.random()
        if c < 0.25:
            g2, o2 = g, off
        elif c < 0.5:
            g2, o2 = near(g, rng.choice([1, -1, 2, -3])), off
        elif c < 0.75:
            g2, o2 = g, near(off, rng.choice([1, -1, 2, 5]))
        else:
            g2, o2 = g * (1 + rng.choice([1e-15, 1e-12, 1e-10, -1e-10, 1e-7])), off + rng.choice([0.0, 1e-13, 1e-10])
        nsrc = rng.choice([1, 1, 2])
        recv = mk_plain(kind, Timing.empty, 2, LinearScaleMode(g, off))
        srcs = [mk_plain(kind, Timing.empty, 1, LinearScaleMode(g, off) if (nsrc == 2 and i == 0) else LinearScaleMode(g2, o2)) for i in range(nsrc)]
        with _w.catch_warnings(record=True) as wl:
            _w.simplefilter("always")
            o = outcome(recv.append, srcs[0] if nsrc == 1 and case % 2 else srcs)
        warned = any(type(x.message).__name__ == "ScalingMismatchWarning" for x in wl)
        want = (g, off) != (g2, o2)
        if o[0] != "ok" or warned != want or (recv.scale_mode.gain, recv.scale_mode.offset) != (g, off) or recv.sample_count != 2 + nsrc:
            ctx.violation(what="ScalingMismatchWarning for nearly equal scale modes", kind=kind, receiver=(g.hex(), off.hex()),
                          source=(g2.hex(), o2.hex()), sources=nsrc, observed=f"{o[0]} warned={warned} scale={recv.scale_mode!r} count={recv.sample_count}",
                          required=f"appended, warned={want}, receiver scale unchanged")
        ctx.case(("near-scale", kind, g, off, g2, o2, nsrc))
        ctx.count("near-scale", "equal" if not want else "differs")
    # the sample intervals of receiver and source may be of different time families (datetime us, hightime ys, bintime ticks): the
    # TimingMismatchWarning is about the intervals being different durations, however small the difference and whichever family is coarser
    import hightime as ht
    import nitypes.bintime as bt
    from fractions import Fraction
    from nitypes.waveform import SampleIntervalMode as _SIM
    half = {"dt": lambda d: dt.timedelta(microseconds=500000 + d), "ht": lambda d: ht.timedelta(microseconds=500000, yoctoseconds=d) if d >= 0 else ht.timedelta(microseconds=500000) - ht.timedelta(yoctoseconds=-d),
            "bt": lambda d: bt.TimeDelta.from_ticks((1 << 63) + d)}
    unit = {"dt": Fraction(1, 10**6), "ht": Fraction(1, 10**24), "bt": Fraction(1, 1 << 64)}
    for kind in ("analog", "digital"):
        for rf in ("dt", "ht", "bt"):
            for sf in ("dt", "ht", "bt"):
                for rd, sd in ((0, 0), (0, 1), (0, -1), (1, 0), (0, 1 << 20), (0, 10**9), (3, 3)):
                    if {rf, sf} == {"bt", "ht"} and 0 < abs(rd - sd) < (1 << 20):
                        continue    # bintime <-> hightime equality is decided on whole yoctoseconds (C03): sub-yoctosecond differences are not claimed
                    for rmode, smode in (("R", "R"), ("R", "N"), ("N", "R")):
                        def tim(mode, fam, d):
                            iv = half[fam](d)
                            return Timing.create_with_regular_interval(iv) if mode == "R" else Timing(_SIM.NONE)
                        recv, src = mk_plain(kind, tim(rmode, rf, rd)), mk_plain(kind, tim(smode, sf, sd), 1)
                        with _w.catch_warnings(record=True) as wl:
                            _w.simplefilter("always")
                            o = outcome(recv.append, src if (rd + sd) % 2 else [src])
                        warned = any(type(x.message).__name__ == "TimingMismatchWarning" for x in wl)
                        ri = None if rmode == "N" else Fraction(1, 2) + rd * unit[rf]
                        si = None if smode == "N" else Fraction(1, 2) + sd * unit[sf]
                        want = ri != si
                        if o[0] != "ok" or warned != want or recv.sample_count != 3:
                            ctx.violation(what="TimingMismatchWarning for intervals of different time families", kind=kind, receiver=f"{rmode}:{rf} 0.5s{rd:+d}u",
                                          source=f"{smode}:{sf} 0.5s{sd:+d}u", observed=f"{o[0]} warned={warned} count={recv.sample_count}",
                                          required=f"appended, warned={want} (the intervals are {'different' if want else 'the same'} durations)")
                        ctx.case(("mixed-family-interval", kind, rf, sf, rd, sd, rmode, smode))
                        ctx.count("mixed-family-interval", f"{rf}<-{sf}")
    # a Timing object shared with other waveforms (or simply kept by the caller) is never modified by an append
    for kind in ("analog", "complex", "digital"):
        for how in ("array", "waveform", "waveforms", "array-rejected"):
            world.objs = {}
            tag = H.SUPPORTED[kind][0] if kind != "digital" else 6
            rows = world.mk_values(tag, 2, 1, kind == "digital")
            n1, n2 = world.fresh(), world.fresh()
            a = H.make_wfm(world, n1, kind, tag, rows, 1, ("I", [1, 2]), 0, {}, extra_cap=rng.choice([0, 4]))
            b = H.make_wfm(world, n2, kind, tag, rows, 1, ("I", [1, 2]), 0, {})
            if a is None or b is None:
                continue
            shared = a.timing
            b.timing = shared                         # both waveforms now hold the same Timing object
            held = list(shared.get_timestamps(0, 2))
            snap_b = world.snap(kind, b)
            arr = world.mk_array(tag, world.mk_values(tag, 2, 1, kind == "digital"), 2 if kind == "digital" else 1)
            good = [H.BASE + dt.timedelta(seconds=5), H.BASE + dt.timedelta(seconds=6)]
            bad = [H.BASE + dt.timedelta(seconds=5), H.BASE + dt.timedelta(seconds=0)]
            if how == "array":
                rec = world.run(f"wappa {n1} {world.arr_token(arr)} 5,6 1", lambda: a.append(arr, good), n1, kind)
            elif how == "array-rejected":
                rec = world.run(f"wappa {n1} {world.arr_token(arr)} 5,0 1", lambda: a.append(arr, bad), n1, kind)
            else:
                n3 = world.fresh()
                c = H.make_wfm(world, n3, kind, tag, rows, 1, ("I", [5, 6]), 0, {})
                rec = world.run(f"wappw {n1} {n3}", lambda: a.append(c if how == "waveform" else [c]), n1, kind)
                if rec["err"] is None:
                    world.expect[-1] = "ok " + rec["after"][n1] + " warn=" + ("_" if not rec["warn"] else ",".join(rec["warn"]))
            now = outcome(lambda: list(shared.get_timestamps(0, 2)))
            all_now = shared._timestamps
            if now != ("ok", held) or len(all_now) != 2 or world.snap(kind, b) != snap_b or b.timing is not shared:
                ctx.violation(what="append modified a Timing object shared with another waveform", kind=kind, how=how,
                              observed=f"{len(all_now)} timestamps in the shared Timing; bystander {world.snap(kind, b)[:120]}",
                              required=f"2 timestamps; bystander {snap_b[:120]}")
            ctx.case(("shared-timing", kind, how))
    # irregular timestamps of different families in one append (datetime receiver, bintime / hightime source and every other pairing, values
    # that the receiver's family cannot hold exactly): the receiver ends with exactly its timestamps followed by the source's OBJECTS' values,
    # and the order check is made on those exact values
    import hightime as _ht
    import nitypes.bintime as _bt
    from fractions import Fraction as _F
    from nitypes.waveform import AnalogWaveform as _AW, DigitalWaveform as _DW, Timing as _T
    u_ = dt.timezone.utc
    def mkts(fam, secs):
        """instants 2025-01-01 + secs (a Fraction of seconds), as exactly as the family allows; returns (objects, exact values in ticks of 2^-64 s or None)"""
        out = []
        for x in secs:
            whole, frac = int(x // 1), x - (x // 1)
            if fam == "dt":
                out.append(dt.datetime(2025, 1, 1, tzinfo=u_) + dt.timedelta(seconds=whole, microseconds=int(frac * 10**6)))
            elif fam == "ht":
                out.append(_ht.datetime(2025, 1, 1, tzinfo=u_) + _ht.timedelta(seconds=whole, yoctoseconds=int(frac * 10**24)))
            else:
                out.append(_bt.DateTime(2025, 1, 1, tzinfo=u_) + _bt.TimeDelta.from_ticks(int(x * 2**64)))
        return out
    fine = _F(271, 10**9)                                       # 271 ns: no whole number of microseconds
    for rf in ("dt", "ht", "bt"):
        for sf in ("dt", "ht", "bt"):
            for rsecs, ssecs, ok in (([_F(0), _F(1)], [_F(2) + fine, _F(3)], True), ([_F(5), _F(3)], [_F(3) + fine, _F(1)], False), ([_F(0), _F(2)], [_F(2) + fine], True),
                                     ([_F(0), _F(2) + fine], [_F(2), _F(3)], sf == "dt" and rf == "dt"), ([_F(4)], [_F(4) + fine, _F(4) + 2 * fine], True)):
                for how in ("waveform", "list", "array+timestamps"):
                    rts, sts = mkts(rf, rsecs), mkts(sf, ssecs)
                    # the families' own exactness: whether the case is monotonic is decided on the objects' exact values
                    allv = rts + sts
                    try:
                        mono = all(a_ <= b_ for a_, b_ in zip(allv, allv[1:])) or all(a_ >= b_ for a_, b_ in zip(allv, allv[1:]))
                    except Exception:                         # noqa: BLE001 - families that cannot be compared are not this section's business
                        continue
                    recv = _AW.from_array_1d(np.arange(len(rts), dtype=np.float64), np.float64, timing=_T.create_with_irregular_interval(rts))
                    src = _AW.from_array_1d(np.arange(len(sts), dtype=np.float64), np.float64, timing=_T.create_with_irregular_interval(sts))
                    o = outcome(lambda: recv.append(src) if how == "waveform" else recv.append([src]) if how == "list" else recv.append(src.raw_data, sts))
                    got = list(recv.timing.get_timestamps(0, recv.sample_count))
                    ctx.case(("mixed-family-irregular", rf, sf, str(rsecs), str(ssecs), how))
                    if how == "array+timestamps" and o[0] == "err" and o[1] == "TypeError":
                        continue                              # the array path may ask for the receiver's own family
                    if mono:
                        good = o[0] == "ok" and len(got) == len(allv) and all(g == w_ and type(g) is type(w_) for g, w_ in zip(got, allv)) and sts == mkts(sf, ssecs)
                    else:
                        good = o[0] == "err" and o[1] == "ValueError" and got == rts and recv.sample_count == len(rts)
                    if not good:
                        ctx.violation(what="append of irregular timestamps of another family", receiver_family=rf, source_family=sf, how=how, receiver_offsets=str([float(x) for x in rsecs]),
                                      source_offsets=str([float(x) for x in ssecs]), observed=f"{show(o)[:80]} timestamps={[str(g) for g in got]}"[:300],
                                      required=("the receiver's timestamps followed by the source's, unchanged in value and type" if mono else "ValueError (not monotonic), receiver unchanged"))
                        break
    ctx.extra["empty_irregular_receiver_cases"] = empty_irregular_receiver_cases(ctx, lambda v: ctx.violation(**v))
    # seeded repeated appends
    w = {"appa": 3, "appw": 8, "load": 1, "setcount": 1, "setcap": 1, "settiming": 2, "write": 0, "get": 0, "pickle": 0, "bad": 0}
    mark = len(world.records)
    for i in range(60 if ctx.quick else 1500):
        H.gen_history(world, kinds[i % 4], rng.randint(2, 10), weights=w, irregular_bias=0.4)
    for r in world.records[mark:]:
        r["from_history"] = True
    for r in world.records:
        t = r["line"].split()
        if t[0] == "wappw" and not r.get("malformed") and "idx" in r and r.get("from_history"):
            names = t[2].split(",")
            if t[1] in r["before"] and all(n in r["before"] for n in names):
                judge(r["kind"], t[1], names, r, r["before"][t[1]], [r["before"][n] for n in names], None, None, None, None)
    for r in world.records[-2000:]:
        ctx.case(r["line"])
    ctx.extra["model_lines_compared"] = H.compare_with_model(ctx, world)
    for line, exp in list(zip(world.lines, world.expect))[3:2000:300]:
        ctx.sample({"request": line[:200], "response": exp[:200]})


def replay(doc):
    print(doc.get("input"))
    return 0
