"""C09 — Irregular timing always carries one monotonic timestamp per sample."""
from __future__ import annotations

from props import wfm_harness as H
from props.common import outcome, show

PID = "C09"
LEAN_MODULE = "NiVerif.Props.C09"
NAMESPACE = "Props.C09"
DRIVER = "drivers/Wfm.lean"
GEN_MODULES = ["AppendTiming"]
EXTRA_LEAN_MODULES = ["NiVerif.Model.WfmProto", "NiVerif.Props.C10"]
THEOREMS = ["checkTimingCount_ok", "ctorNew_inv9", "ctorArr_inv9", "setTiming_inv9", "setCount_inv9", "setCapacity_inv9",
            "writeView_inv9", "appendTimestamps_spec", "appendArray_inv9", "foldTiming_spec", "appendWaveforms_inv9",
            "loadData_inv9", "inv9_step", "inv9_reachable", "get_all_timestamps_ok", "pickle_inv9",
            "Props.C10.gen_append_timing_eq_model", "Props.C10.gen_append_timestamps_eq_model"]
RULE = ("seeded histories on AnalogWaveform / ComplexWaveform / DigitalWaveform biased towards irregular timing: "
        "construction with a timing argument, timing assignment, append of arrays with timestamps (every relation of the "
        "timestamp count to the array length, ascending/descending/non-monotonic), append of waveforms and sequences of "
        "waveforms of every mode, load_data with sub-ranges, sample_count assignment, pickling; after every call the "
        "invariant is checked on every live object (oracle) and the state is compared with Model/Wfm.lean")
TRUSTED = ["hand model NiVerif/Model/Wfm.lean (timing part: _append_timestamps, _append_timing, _validate_timing, the "
           "count checks of the constructor / sample_count / load_data) compared with the real objects after every call"]
ASSUMPTIONS = ["timestamps are datetime.datetime values (one family); Timing objects are themselves monotonic (C08/C20)"]


def oracle(ctx, world):
    from nitypes.waveform import SampleIntervalMode
    seen = 0
    for name, (kind, o) in world.objs.items():
        if kind == "spectrum":
            continue
        t = o.timing
        if t.sample_interval_mode == SampleIntervalMode.IRREGULAR:
            seen += 1
            st = list(t._timestamps)
            mono = all(a <= b for a, b in zip(st, st[1:])) or all(a >= b for a, b in zip(st, st[1:]))
            got = outcome(lambda: list(t.get_timestamps(0, o.sample_count)))
            if len(st) != o.sample_count or not mono or got[0] != "ok" or len(got[1]) != o.sample_count:
                ctx.violation(what="irregular invariant (final state)", obj=name, observed=world.snap(kind, o)[:300],
                              required="len(timestamps) == sample_count, monotonic, get_timestamps(0, sample_count) ok")
    return seen


def check_records(ctx, world):
    """After EVERY call: every live irregular waveform has one monotonic timestamp per sample."""
    n = 0
    for r in world.records:
        for name, snap in r["after"].items():
            if "UNOBSERVABLE" in snap:
                ctx.violation(what="after a call the waveform can no longer be observed", after=r["line"][:200], obj=name, observed=snap[:200],
                              required="a consistent waveform")
                return n
            f = dict(x.split("=", 1) for x in snap.split(" "))
            tm = f["timing"]
            if tm.startswith("I:"):
                n += 1
                st = [] if tm.split(":")[2] == "_" else [int(x) for x in tm.split(":")[2].split(",")]
                mono = all(a <= b for a, b in zip(st, st[1:])) or all(a >= b for a, b in zip(st, st[1:]))
                if len(st) != int(f["count"]) or not mono:
                    ctx.violation(what="irregular invariant", after=r["line"][:200], obj=name, observed=snap[:300],
                                  required="number of timestamps == sample_count and timestamps monotonic")
                    return n
    return n


def run(ctx):
    import warnings
    warnings.simplefilter("ignore")
    world = H.World(ctx.rng)
    n_hist = 900 if ctx.quick else 5000
    w = {"appa": 5, "appw": 4, "load": 3, "setcount": 3, "setcap": 1, "settiming": 3, "write": 1, "get": 0, "pickle": 2, "bad": 1}
    GT = [0]
    for i in range(n_hist):
        kind = ["analog", "complex", "digital"][i % 3]
        H.gen_history(world, kind, ctx.rng.randint(1, 14 if ctx.quick else 40), weights=w, irregular_bias=0.65)
        GT[0] += oracle(ctx, world)
    ctx.extra["irregular_states_checked"] = check_records(ctx, world)

    # one append call with several sources whose timing modes differ, onto empty and non-empty receivers of every mode: whatever the
    # call does (accept or refuse), an IRREGULAR receiver ends with one monotonic timestamp per sample
    import datetime as dt
    import itertools
    import numpy as np
    from nitypes.waveform import AnalogWaveform, ComplexWaveform, DigitalWaveform, SampleIntervalMode, Timing
    B = H.BASE
    def mkw(kind, n, mode, t0=0):
        tm = {"default": None, "N": Timing.create_with_no_interval(B), "R": Timing.create_with_regular_interval(dt.timedelta(seconds=1), B),
              "I": Timing.create_with_irregular_interval([B + dt.timedelta(seconds=t0 + k) for k in range(n)])}[mode]
        kw = {} if tm is None else {"timing": tm}
        if kind == "digital":
            return DigitalWaveform.from_lines(np.zeros((n, 1), np.uint8), **kw)
        cls, dty = (AnalogWaveform, np.float64) if kind == "analog" else (ComplexWaveform, np.complex128)
        return cls.from_array_1d(np.zeros(n, dty), dty, **kw)
    n_mixed = 0
    for kind in ("analog", "complex", "digital"):
        for rmode, rn in (("default", 0), ("default", 2), ("N", 0), ("R", 0), ("I", 0), ("I", 2), ("R", 2)):
            for smodes in itertools.product(("default", "N", "R", "I"), repeat=2):
                for sns in ((3, 2), (0, 2), (2, 0), (1, 1)):
                    recv = mkw(kind, rn, rmode)
                    srcs = [mkw(kind, n, m, t0=10 * (i + 1)) for i, (m, n) in enumerate(zip(smodes, sns))]
                    o = outcome(recv.append, srcs)
                    n_mixed += 1
                    t = recv.timing
                    if t.sample_interval_mode == SampleIntervalMode.IRREGULAR:
                        st = list(t._timestamps)
                        mono = all(a <= b for a, b in zip(st, st[1:])) or all(a >= b for a, b in zip(st, st[1:]))
                        got = outcome(lambda: list(t.get_timestamps(0, recv.sample_count)))
                        if len(st) != recv.sample_count or not mono or got[0] != "ok":
                            ctx.violation(what="irregular invariant after a multi-source append", kind=kind, receiver=f"{rmode}/{rn} samples",
                                          sources=[f"{m}/{n}" for m, n in zip(smodes, sns)], call_outcome=str(o[:2])[:80],
                                          observed=f"{len(st)} timestamps, {recv.sample_count} samples", required="one monotonic timestamp per sample")
                    ctx.case(("mixed-append", kind, rmode, rn, smodes, sns))
    ctx.extra["mixed_mode_appends"] = n_mixed
    # borrowed / read-only buffers: after every call, accepted or rejected, one monotonic timestamp per sample
    def bjudge(info, w, before, o, after):
        t = after.get("timing")
        if info["timing"] == "irregular" and t is not None:
            stamps = t[4]
            mono = stamps is not None and (all(a <= b for a, b in zip(stamps, stamps[1:])) or all(a >= b for a, b in zip(stamps, stamps[1:])))
            if stamps is None or len(stamps) != after.get("count") or not mono:
                ctx.violation(what="irregular timing does not carry one monotonic timestamp per sample after a call", call_outcome=str(o[:2]),
                              observed=f"{None if stamps is None else len(stamps)} timestamps, {after.get('count')} samples",
                              required="equal counts, monotonic", **info)
                return False
        return True
    ctx.extra["borrowed_buffer_calls"] = H.borrowed_cases(ctx, bjudge, quick_subset=ctx.quick)
    # ... and when a mismatch warning is turned into an exception by the caller's warning filter
    ctx.extra["warnings_as_errors_calls"] = H.warnings_as_errors_cases(ctx, lambda info, w, before, o, after, sb, sa: bjudge(info, w, before, o, after))
    # timestamps delivered in every kind of Sequence (list, tuple, DateTimeArray, a user Sequence) with steps INSIDE one second, of every
    # size (more and less than half a second, one tick), ties, and a carry into the next second: the waveform either holds one monotonic
    # timestamp per sample or the construction / assignment / append was refused
    import itertools as _it
    from collections.abc import Sequence as _Seq
    import nitypes.bintime as _bt
    from nitypes.waveform import AnalogWaveform as _AW2, DigitalWaveform as _DW2, Timing as _T2

    class _MySeq(_Seq):
        def __init__(self, xs): self._xs = list(xs)
        def __len__(self): return len(self._xs)
        def __getitem__(self, i): return self._xs[i]
    base_ = _bt.DateTime(2025, 1, 1, tzinfo=dt.timezone.utc)
    fr = [0, 1, (1 << 64) // 10, (1 << 63) - 1, 1 << 63, (1 << 63) + 1, 9 * ((1 << 64) // 10), (1 << 64) - 1, (1 << 64) + (1 << 62)]
    n_sub = 0
    for combo in _it.permutations(range(len(fr)), 3):
        if (combo[0] * 7 + combo[1] * 3 + combo[2]) % (5 if ctx.quick else 1):
            continue
        for extra_tie in (False, True):
            ticks_ = [fr[i] for i in combo] + ([fr[combo[2]]] if extra_tie else [])
            mono = all(a <= b for a, b in zip(ticks_, ticks_[1:])) or all(a >= b for a, b in zip(ticks_, ticks_[1:]))
            stamps_ = [base_ + _bt.TimeDelta.from_ticks(t) for t in ticks_]
            for cname, cont in (("list", list(stamps_)), ("tuple", tuple(stamps_)), ("DateTimeArray", _bt.DateTimeArray(stamps_)), ("Sequence", _MySeq(stamps_))):
                for route in ("create", "ctor", "waveform", "setter", "append"):
                    n_sub += 1
                    if route == "create":
                        o = outcome(lambda: _T2.create_with_irregular_interval(cont))
                        held = o[1]._timestamps if o[0] == "ok" else None
                    elif route == "ctor":
                        o = outcome(lambda: _T2(SampleIntervalMode.IRREGULAR, timestamps=cont))
                        held = o[1]._timestamps if o[0] == "ok" else None
                    elif route == "waveform":
                        o = outcome(lambda: _AW2(len(ticks_), np.float64, timing=_T2.create_with_irregular_interval(cont)))
                        held = o[1].timing._timestamps if o[0] == "ok" else None
                    elif route == "setter":
                        w_ = _DW2(len(ticks_), 1)
                        o = outcome(lambda: setattr(w_, "timing", _T2.create_with_irregular_interval(cont)))
                        held = w_.timing._timestamps if o[0] == "ok" else None
                    else:
                        w_ = _AW2(0, np.float64, timing=_T2.create_with_irregular_interval([]))
                        o = outcome(lambda: w_.append(np.zeros(len(ticks_)), cont))
                        held = w_.timing._timestamps if o[0] == "ok" else None
                    ctx.case(("sub-second", tuple(combo), extra_tie, cname, route))
                    if o[0] == "ok":
                        got_ = [x.ticks - base_.ticks for x in held]
                        good = mono and got_ == ticks_
                    else:
                        good = (not mono) and o[1] in ("ValueError", "TimingMismatchError")
                    if not good:
                        ctx.violation(what="irregular timestamps with steps inside one second", container=cname, route=route, tick_offsets=str(ticks_), monotonic=mono,
                                      observed=show(o)[:120] if o[0] != "ok" else f"accepted, holds {got_}", required="accepted unchanged" if mono else "ValueError")
                        break
                else:
                    continue
                break
            else:
                continue
            break
        else:
            continue
        break
    ctx.extra["sub_second_sequences"] = n_sub
    ctx.extra["irregular_objects_with_get_timestamps"] = GT[0]
    for r in world.records:
        ctx.case(r["line"], nontrivial=not r.get("malformed"))
        ctx.count("op", r["line"].split()[0])
        ctx.count("outcome", "ok" if r["err"] is None else r["err"][1])
    ctx.extra["histories"] = n_hist
    ctx.extra["model_lines_compared"] = H.compare_with_model(ctx, world)
    for line, exp in list(zip(world.lines, world.expect))[7:400:60]:
        ctx.sample({"request": line[:200], "response": exp[:200]})


def replay(doc):
    print(doc.get("input"))
    return 0
