"""C15 — Digital signal names always reflect the NI_LineNames property."""
from __future__ import annotations

import copy
import pickle

import numpy as np

from props.common import outcome, show

PID = "C15"
LEAN_MODULE = "NiVerif.Props.C15"
NAMESPACE = "Props.C15"
DRIVER = "drivers/C15.lean"
GEN_MODULES = ["ExtProps", "Names"]
EXTRA_LEAN_MODULES = ["NiVerif.Model.Names", "NiVerif.Props.ExtProps"]
THEOREMS = ["names_spec", "read_reflects", "inv_step", "name_reflects_property", "splitComma_append", "split_join",
            "parse_join", "parse_length", "set_name_local", "indexOf_some", "indexOf_none", "lookup_by_name",
            "Props.ExtProps.gen_setitem_notifies", "Props.ExtProps.gen_delitem_notifies", "Props.ExtProps.gen_merge_notifies_iff", "Props.ExtProps.gen_merge_line_names",
            "gen_get_line_names_eq_model", "gen_set_line_name_eq_model", "gen_on_changed"]
RULE = ("seeded interleavings of name reads (populating the cache), name writes through signals[i].name, direct writes and "
        "deletes of NI_LineNames, appends whose sources carry NI_LineNames (property merge), load_data, pickling / "
        "deepcopy and signals[name] lookups, for signal counts 1-8 and name lists shorter, equal and longer than the "
        "signal count; names over ASCII, inner spaces, every Unicode whitespace character str.strip() removes, empty; "
        "after every step every signal's name is compared with the trimmed entry of the current property (oracle) and "
        "the whole history is replayed through Model/Names.lean")
TRUSTED = ["hand model NiVerif/Model/Names.lean (split/strip/pad, cache, notification on set/delete/merge, lookup by "
           "name) compared with the real DigitalWaveform step by step; isWs is exactly str.isspace (checked over all "
           "code points)"]
ASSUMPTIONS = ["names assigned in the 'clean name' part contain no comma and no surrounding whitespace (as the property says)"]
LN = "NI_LineNames"


def enc(s):
    return "_" if s == "" else ".".join(str(ord(c)) for c in s)


def run(ctx):
    # ExtendedPropertyDictionary as regenerated from the source (tier T14: Gen/ExtProps.lean) against the real class with a listener
    from props import extprops_harness
    ctx.extra["ext_props_lines"] = extprops_harness.ext_props_cases(ctx)
    from nitypes.waveform import DigitalWaveform
    rng = ctx.rng
    # isWs of the model == str.isspace, over all code points (the model's definition is a finite list of ranges)
    ws = [c for c in range(0x110000) if chr(c).isspace()]
    model_ws = [c for c in range(0x110000) if (9 <= c <= 13) or (28 <= c <= 32) or c in (133, 160, 5760, 8232, 8233, 8239, 8287, 12288) or 8192 <= c <= 8202]
    if ws != model_ws:
        ctx.mismatch(stream="whitespace-set", request="str.isspace over all code points", model_says=str(model_ws[:40]), code_says=str(ws[:40]))
    WSCH = [" ", "\t", " ", " ", "　", "\x1f", "\n"]
    ALPHA = ["a", "b", "c", "line 0", "D7", "é", "x y", "q", ""]
    lines, expect = [], []
    n_hist = 200 if ctx.quick else 6000

    def expected_names(w):
        n = w.signal_count
        s = w.extended_properties.get(LN, "")
        parts = [p.strip() for p in s.split(",")]
        parts += [""] * (n - len(parts))
        return [parts[n - 1 - i] for i in range(n)]

    def check(w, where):
        got = [w.signals[i].name for i in range(w.signal_count)]
        want = expected_names(w)
        if got != want:
            ctx.violation(what="names do not reflect NI_LineNames", after=where, prop=w.extended_properties.get(LN, None),
                          observed=str(got), required=str(want))
            return False
        return True

    for h in range(n_hist):
        n = rng.randint(1, 8)
        k = rng.choice([0, max(0, n - 2), n, n + 2])
        def rname(clean=False):
            base = rng.choice(ALPHA if not clean else ["a", "b", "c", "line 0", "D7", "é", "x y", "q"])
            if clean:
                return base
            return rng.choice(["", rng.choice(WSCH)]) + base + rng.choice(["", rng.choice(WSCH)])
        init = None if k == 0 and rng.random() < 0.5 else rng.choice([",", ", ", " ,"]).join(rname() for _ in range(k))
        w = DigitalWaveform(2, n, extended_properties=None if init is None else {LN: init})
        lines.append(f"nnew {n} {'-' if init is None else enc(init)}"); expect.append("ok")
        for _ in range(rng.randint(1, 12 if ctx.quick else 30)):
            op = rng.choice(["read", "read", "write", "set", "set", "del", "merge", "pickle", "lookup", "lookup", "lookup", "load", "readall"])
            if op == "read":
                i = rng.randrange(n)
                nm = w.signals[i].name
                lines.append(f"nread {i}"); expect.append("ok " + enc(nm))
            elif op == "readall":
                check(w, "readall")
                for i in range(n):
                    lines.append(f"nread {i}"); expect.append("ok " + enc(w.signals[i].name))
            elif op == "write" and rng.random() < 0.3:
                # a name as typed: padded, or containing the separator — afterwards every name must still be the trimmed
                # entry of the property (the raw assigned text is not what the property holds)
                i = rng.randrange(n)
                v = rng.choice([" pad", "pad ", "\tq\t", "a,b", "x, y", " ", ","]) if rng.random() < 0.8 else rname()
                w.signals[i].name = v
                lines.append(f"nwrite {i} {enc(v)}"); expect.append("ok")
            elif op == "write":
                i = rng.randrange(n)
                v = rname(clean=True)
                before = [w.signals[j].name for j in range(n)]
                all_clean = all("," not in x and x.strip() == x for x in [p for p in (w.extended_properties.get(LN, "") or "").split(",")]) \
                    and all(x.strip() == x for x in (w.extended_properties.get(LN, "") or "").split(", ") if True)
                w.signals[i].name = v
                after = [w.signals[j].name for j in range(n)]
                if after[i] != v:
                    ctx.violation(what="assigned name not returned", i=i, name=v, observed=after[i], required=v)
                elif all(b.strip() == b and "," not in b for b in before) and [a for j, a in enumerate(after) if j != i] != [b for j, b in enumerate(before) if j != i]:
                    ctx.violation(what="assigning a name changed another signal", i=i, name=v, observed=str(after), required=str(before))
                parts = [p.strip() for p in w.extended_properties[LN].split(",")]
                if parts[n - 1 - i] != v:
                    ctx.violation(what="assigned name not reflected in NI_LineNames", i=i, name=v, observed=w.extended_properties[LN], required=v)
                lines.append(f"nwrite {i} {enc(v)}"); expect.append("ok")
            elif op == "set":
                kk = rng.choice([0, 1, n, n + 1, n + 3])
                s = rng.choice([",", ", "]).join(rname() for _ in range(kk))
                # a direct write is any way a mutable mapping can be written: item assignment, update() from a dict / a list of pairs /
                # a one-shot iterator of pairs / keyword arguments, setdefault on an absent key, |= is not offered by the class
                how = rng.choice(["setitem", "setitem", "update-dict", "update-pairs", "update-iter", "update-gen", "update-zip", "update-kwargs", "setdefault"])
                ep = w.extended_properties
                if how == "setitem": ep[LN] = s
                elif how == "update-dict": ep.update({"zz": 1, LN: s})
                elif how == "update-pairs": ep.update([(LN, s), ("zz", 2)])
                elif how == "update-iter": ep.update(iter([("zz", 3), (LN, s)]))
                elif how == "update-gen": ep.update((k_, v_) for k_, v_ in [(LN, s)])
                elif how == "update-zip": ep.update(zip([LN], [s]))
                elif how == "update-kwargs": ep.update(**{LN: s})
                else:
                    ep.pop(LN, None); ep.setdefault(LN, s)
                ctx.count("direct-write", how)
                lines.append(f"nset {enc(s)}"); expect.append("ok")
            elif op == "del":
                how = rng.choice(["del", "pop", "clear", "popitem"])
                ep = w.extended_properties
                if how == "del":
                    if LN in ep:
                        del ep[LN]
                elif how == "pop":
                    ep.pop(LN, None)
                elif how == "clear":
                    ep.clear()
                else:
                    # popitem until the entry is gone (MutableMapping.popitem removes the first key)
                    while LN in ep:
                        ep.popitem()
                ctx.count("direct-delete", how)
                lines.append("nset -"); expect.append("ok")
            elif op == "merge":
                src = DigitalWaveform(1, n)
                s = None
                if rng.random() < 0.8:
                    s = ", ".join(rname() for _ in range(rng.choice([n, n - 1 if n > 1 else 1, n + 1])))
                    src.extended_properties[LN] = s
                src.extended_properties["other"] = "x"
                w.append(src if rng.random() < 0.5 else [src])
                lines.append(f"nmerge {'-' if s is None else enc(s)}"); expect.append("ok")
            elif op == "pickle":
                w = rng.choice([lambda x: pickle.loads(pickle.dumps(x)), copy.deepcopy])(w)
                lines.append("npickle"); expect.append("ok")
            elif op == "load":
                w.load_data(np.zeros((rng.randint(0, 3), n), np.uint8))
            elif op == "lookup":
                cands = [x for x in expected_names(w)] + ["zz", "", "a"]
                longer = [p.strip() for p in w.extended_properties.get(LN, "").split(",")][n:]
                x = rng.choice(cands + longer)
                o = outcome(lambda: w.signals[x])
                if o[0] == "ok":
                    if o[1].name != x:
                        ctx.violation(what="signals[name] returned another signal", name=x, observed=o[1].name, required=x)
                    lines.append(f"nlookup {enc(x)}"); expect.append(f"ok {o[1].signal_index}")
                    names_now = [w.signals[j].name for j in range(n)]
                    if x in names_now and names_now[o[1].signal_index] != x:
                        ctx.violation(what="signals[name] returned a signal that does not carry that name", name=x, observed=o[1].signal_index, required=names_now.index(x))
                else:
                    if o[1] != "IndexError":
                        ctx.violation(what="signals[name] error class", name=x, observed=show(o), required="IndexError")
                    names_now = [w.signals[j].name for j in range(n)]
                    if x in names_now:
                        ctx.violation(what="signals[name] does not find a signal that carries that name", name=x, names=names_now, observed=show(o), required=f"signal {names_now.index(x)}")
                    lines.append(f"nlookup {enc(x)}"); expect.append("err " + o[1])
            if not check(w, op):
                break
            prop = w.extended_properties.get(LN, None)
            lines.append("nprop"); expect.append("ok " + ("-" if prop is None else enc(prop)))
            ctx.count("op", op)
        ctx.case(("hist", h, n, init))
    # ---- every short schedule of {lookup by name, rename, property write, read} on one waveform: after each step every name a signal
    #      carries is found at that signal (first one wins) and every other name is refused with IndexError -------------------------------
    import itertools as _it
    steps = ("lookup-old", "lookup-new", "rename-clean", "rename-spaced", "rename-comma", "prop-write", "read-all")
    n_sched = 0
    for n in (1, 2, 3):
        for sched in _it.product(steps, repeat=3):
            if not any(x.startswith("rename") or x == "prop-write" for x in sched) or not any(x.startswith("lookup") for x in sched):
                continue
            w = DigitalWaveform(2, n, extended_properties={LN: ", ".join(f"o{j}" for j in range(n))})
            target = n - 1
            for k, st in enumerate(sched):
                if st == "lookup-old": outcome(lambda: w.signals["o0"])
                elif st == "lookup-new": outcome(lambda: w.signals[f"N{k - 1}"])
                elif st == "rename-clean": w.signals[target].name = f"N{k}"
                elif st == "rename-spaced": w.signals[target].name = f" N{k} "
                elif st == "rename-comma": w.signals[0].name = f"N{k},x"
                elif st == "prop-write": w.extended_properties[LN] = ", ".join(f"N{k}" if j == 0 else f"p{j}" for j in range(n))
                else: [w.signals[j].name for j in range(n)]
                names_now = [w.signals[j].name for j in range(n)]
                for cand in sorted(set(names_now) | {"o0", f"o{n - 1}", f"N{k}", f"N{k - 1}", "zz"}):
                    o = outcome(lambda: w.signals[cand])
                    want = names_now.index(cand) if cand in names_now else None
                    got = o[1].signal_index if o[0] == "ok" else None
                    if got != want or (o[0] == "err" and o[1] != "IndexError") or (o[0] == "ok" and o[1].name != cand):
                        ctx.violation(what="signals[name] after a schedule of lookups and renames", signals=n, schedule=list(sched[:k + 1]), name=cand, names=names_now,
                                      observed=(f"signal {got} named {o[1].name!r}" if o[0] == "ok" else show(o)), required=(f"signal {want}" if want is not None else "IndexError"))
                        break
                else:
                    if not check(w, f"schedule {sched[:k + 1]}"):
                        break
                    continue
                break
            n_sched += 1
            ctx.case(("schedule", n, sched))
    ctx.extra["lookup_rename_schedules"] = n_sched
    # ---- several waveforms sharing one extended-property dictionary (copy.copy, copy_extended_properties=False), some of
    # them garbage-collected in between: every live waveform must follow every change of NI_LineNames -------------------
    import gc
    from nitypes.waveform import ExtendedPropertyDictionary
    # a caller-owned plain dict (or dictionary object) handed to several waveforms with the default copy_extended_properties=True:
    # each waveform has its own names; later changes of the caller's mapping or of one waveform do not reach the others
    for h in range(60 if ctx.quick else 1500):
        n = rng.randint(1, 3)
        src = {LN: ", ".join(rng.choice(ALPHA[:8]) for _ in range(n))}
        if rng.random() < 0.5:
            src = ExtendedPropertyDictionary(src)
        # a plain dict is copied whatever the flag says (only a dictionary object can be shared); a dictionary object here gets True / default
        flag = rng.choice([None, True, False]) if isinstance(src, dict) else rng.choice([None, True])
        kw = {} if flag is None else {"copy_extended_properties": flag}
        ws = [DigitalWaveform(2, n, extended_properties=src, **kw) for _ in range(rng.randint(2, 3))]
        ctx.count("same-mapping", f"{type(src).__name__} flag={flag}")
        for w in ws:
            if rng.random() < 0.7:
                [w.signals[i].name for i in range(n)]
        for step in range(rng.randint(1, 5)):
            op = rng.choice(["caller-set", "caller-del", "write", "set", "read"])
            if op == "caller-set":
                src[LN] = ", ".join("c" + str(step) for _ in range(n))
            elif op == "caller-del" and LN in src:
                del src[LN]
            elif op == "write":
                rng.choice(ws).signals[rng.randrange(n)].name = "w" + str(step)
            elif op == "set":
                rng.choice(ws).extended_properties[LN] = ", ".join("s" + str(step) for _ in range(n))
            else:
                w = rng.choice(ws); [w.signals[i].name for i in range(n)]
            if not all(check(w, f"same mapping for several waveforms / {op}") for w in ws):
                break
        ctx.case(("same-mapping", h, n))
    for h in range(80 if ctx.quick else 2500):
        n = rng.randint(1, 4)
        epd = ExtendedPropertyDictionary({LN: ", ".join(rng.choice(ALPHA[:8]) for _ in range(n))})
        ws = []
        for k in range(rng.randint(2, 5)):
            how = rng.choice(["ctor", "copy"]) if ws else "ctor"
            w = DigitalWaveform(2, n, extended_properties=epd, copy_extended_properties=False) if how == "ctor" else copy.copy(rng.choice(ws))
            if w.extended_properties is not epd:
                break
            ws.append(w)
        for step in range(rng.randint(2, 8)):
            op = rng.choice(["read", "read", "drop", "set", "set", "del", "write"])
            if op == "read":
                for w in ws:
                    if rng.random() < 0.7:
                        [w.signals[i].name for i in range(n)]
            elif op == "drop" and len(ws) > 1:
                del ws[rng.randrange(len(ws) - 1)]      # an earlier-registered waveform goes away
                gc.collect()
            elif op == "set":
                epd[LN] = ", ".join(rng.choice(ALPHA[:8]) + str(step) for _ in range(rng.choice([n, n, max(1, n - 1)])))
            elif op == "del" and LN in epd:
                del epd[LN]
            elif op == "write":
                rng.choice(ws).signals[rng.randrange(n)].name = "w" + str(step)
            ok = True
            for w in ws:
                ok = check(w, f"shared dictionary / {op}") and ok
            ctx.count("shared-op", op)
            if not ok:
                break
        ctx.case(("shared", h, n))
    res = ctx.model(lines)
    if res is not None:
        for q, want, got in zip(lines, expect, res):
            g = got if not got.startswith("err ") else "err " + got.split()[-1]
            if g != want:
                ctx.mismatch(stream="names " + q.split()[0], request=q[:200], model_says=got[:200], code_says=want[:200])
                break
    ctx.extra["model_lines_compared"] = len(lines)
    ctx.evaluations += len(lines)
    for q, e in list(zip(lines, expect))[:400:50]:
        ctx.sample({"request": q[:120], "response": e[:120]})


def replay(doc):
    print(doc.get("input"))
    return 0
