"""C13 — Pickle and deepcopy reproduce every public value exactly and independently."""
from __future__ import annotations

import copy
import enum
import datetime as dt
import pickle

import numpy as np

from props import wfm_harness as H
from props.common import I128_MAX, I128_MIN, edge_ticks, outcome, rand_ticks, show

PID = "C13"
LEAN_MODULE = "NiVerif.Props.C13"
NAMESPACE = "Props.C13"
DRIVER = "drivers/Wfm.lean"
GEN_MODULES = ["TimeValueTuple", "TimeDelta", "DateTime", "BtDtypes", "ExtProps", "Units", "BtElemSites", "WfmReduce"]
EXTRA_LEAN_MODULES = ["NiVerif.Model.WfmProto", "NiVerif.Props.ExtProps", "NiVerif.Props.C19"]
THEOREMS = ["pickle_succeeds", "pickle_observe", "eq_ignores_slack", "pickle_equal", "pickle_twice", "timing_pickle",
            "bintime_pickle",
            # tier T30: the argument lists of __reduce__ of the three buffer classes (Gen/WfmReduce)
            "gen_pickle_eq_model", "gen_reduce_passes_all_but_slack", "gen_reduce_reads_window", "gen_unpickle_is_ctor_call", "gen_pickle_observe",
            "gen_eq_ignores_slack", "gen_eq_sound",
            "Props.C02.gen_array_pickle_roundtrip",
            "Props.ExtProps.gen_init_copies",
            "Props.C19.gen_Scalar_pickle_props", "Props.C19.gen_Vector_pickle_props", "Props.C19.gen_XYData_pickle_props"]
RULE = ("values of every public type — DateTime, TimeDelta (128-bit edge lattice), DateTimeArray, TimeDeltaArray, "
        "Timing (3 modes x 3 families), scale modes, ExtendedPropertyDictionary, Analog/Complex/Digital waveforms and "
        "Spectrum reached through seeded histories (allocation slack, borrowed buffers, cached signal names, shared "
        "property dictionaries), Scalar, Vector (incl. emptied and bool-in-int vectors), XYData — each pickled with "
        "protocols 2-5 and the default and deep-copied; equality, type, full observable state and independence "
        "(mutating the copy) are checked on the real objects; waveform pickling is also compared with Model/Wfm.lean")
TRUSTED = ["pickle / copy / ndarray pickling are trusted runtime; the model is `__reduce__` argument -> constructor "
           "(Model/Wfm.lean `pickle`, Model/Timing.lean ctor, regenerated from_ticks)"]
ASSUMPTIONS = ["Scalar / Vector / XYData / bintime arrays / ExtendedPropertyDictionary are decided by the oracle on the "
               "real objects (their container behaviour is modelled under C17-C19)"]

HOW = ["p2", "p3", "p4", "p5", "default", "deepcopy"]


class _Color(enum.IntEnum):
    RED = 1
    BLUE = 2


class _MyFloat(float):
    pass


def dup(x, how):
    if how == "deepcopy":
        return copy.deepcopy(x)
    if how == "default":
        return pickle.loads(pickle.dumps(x))
    return pickle.loads(pickle.dumps(x, protocol=int(how[1])))


def check_value(ctx, label, x, observe, mutate=None, must_mutate=False):
    """observe(x) -> comparable full observable state; mutate(copy) changes the copy only.

    must_mutate: the mutation is one the original accepts (checked on the original at the end), so a copy that refuses
    it is not a usable, independent value."""
    base = observe(x)
    refused = []
    for how in HOW:
        o = outcome(dup, x, how)
        if o[0] != "ok":
            ctx.violation(what="pickle/deepcopy failed", type=label, how=how, observed=show(o), required="a copy")
            continue
        y = o[1]
        if type(y) is not type(x) or not (y == x) or observe(y) != base:
            ctx.violation(what="copy differs", type=label, how=how, observed=str(observe(y))[:300], required=str(base)[:300])
            continue
        if mutate is not None:
            try:
                mutate(y)
            except Exception as e:  # noqa: BLE001 - some values cannot be mutated in this way
                refused.append((how, f"{type(e).__name__}: {e}"[:160]))
                continue
            if observe(x) != base:
                ctx.violation(what="copy not independent", type=label, how=how, observed=str(observe(x))[:300], required=str(base)[:300])
        ctx.count("type", label)
    if must_mutate and refused:
        try:
            mutate(x)
            legal = True
        except Exception:  # noqa: BLE001
            legal = False
        if legal:
            ctx.violation(what="the copy refuses an operation the original accepts", type=label, how=refused[0][0], observed=refused[0][1],
                          required="a copy usable exactly like the original")
    ctx.case((label, str(base)[:200]))


def run(ctx):
    import hightime as ht
    import nitypes.bintime as bt
    from nitypes.scalar import Scalar
    from nitypes.vector import Vector
    from nitypes.waveform import (NO_SCALING, AnalogWaveform, DigitalWaveform, ExtendedPropertyDictionary,
                                  LinearScaleMode, SampleIntervalMode, Timing)
    from nitypes.xy_data import XYData
    import warnings
    warnings.simplefilter("ignore")
    rng = ctx.rng
    # ---- bintime scalars and arrays --------------------------------------------------------------------
    ticks = [t for t in edge_ticks() if I128_MIN <= t <= I128_MAX][:: (6 if ctx.quick else 1)]
    ticks += [rand_ticks(rng, True) for _ in range(60 if ctx.quick else 3000)]
    ticks = [max(I128_MIN, min(I128_MAX, t)) for t in ticks]
    for t in ticks:
        check_value(ctx, "TimeDelta", bt.TimeDelta.from_ticks(t), lambda v: ("TimeDelta", v.ticks))
        check_value(ctx, "DateTime", bt.DateTime.from_ticks(t), lambda v: ("DateTime", v.ticks))
    def arr_mut(mk):
        def m(a):
            # in-place writes first (they need writable storage), then structural changes
            if len(a):
                a[0] = mk(7)
                a[0:1] = [mk(9)]
                a[-1] = mk(11)
            a.append(mk(1))
            a.insert(0, mk(2))
            del a[0]
        return m
    for n in (0, 1, 2, 5):
        for _rep in range(1 if ctx.quick else 20):
            vals = [rng.choice(ticks) for _ in range(n)]
            check_value(ctx, "TimeDeltaArray", bt.TimeDeltaArray([bt.TimeDelta.from_ticks(t) for t in vals]),
                        lambda a: [x.ticks for x in a] + [a._array.tobytes()], arr_mut(bt.TimeDelta.from_ticks), must_mutate=True)
            check_value(ctx, "DateTimeArray", bt.DateTimeArray([bt.DateTime.from_ticks(t) for t in vals]),
                        lambda a: [x.ticks for x in a] + [a._array.tobytes()], arr_mut(bt.DateTime.from_ticks), must_mutate=True)
    # ---- Timing -------------------------------------------------------------------------------------------
    u = dt.timezone.utc
    fam = {"dt": (dt.datetime(2024, 1, 1, tzinfo=u), dt.timedelta(seconds=1)),
           "ht": (ht.datetime(2024, 1, 1, femtosecond=5, tzinfo=u), ht.timedelta(seconds=1, yoctoseconds=3)),
           "bt": (bt.DateTime(2024, 1, 1, tzinfo=u), bt.TimeDelta(1.5))}

    def tobs(t):
        def one(v):
            return None if v is None else (type(v).__name__, type(v).__module__.split(".")[0], str(v) if not hasattr(v, "ticks") else v.ticks)
        return (t.sample_interval_mode, one(t._timestamp), one(t._time_offset), one(t._sample_interval),
                None if t._timestamps is None else [one(x) for x in t._timestamps])
    for f, (d0, td) in fam.items():
        for ts, off in ((None, None), (d0, None), (d0, td), (None, td)):
            check_value(ctx, "Timing", Timing.create_with_no_interval(ts, off), tobs)
            check_value(ctx, "Timing", Timing.create_with_regular_interval(td, ts, off), tobs)
        for n in (0, 1, 3):
            check_value(ctx, "Timing", Timing.create_with_irregular_interval([d0 + td * i for i in range(n)]), tobs)
    check_value(ctx, "Timing", Timing.empty, tobs)
    # ---- scale modes, property dictionaries -----------------------------------------------------------------------
    check_value(ctx, "ScaleMode", NO_SCALING, lambda s: repr(s))
    # values that are equal but not the same (signs of zero, int / float / bool spellings) are copied one after the other in this one
    # process: each copy must be the copy of ITS original (observed through repr, which shows the sign of a zero and the type)
    smobs = lambda s: (type(s).__name__, repr(s.gain), repr(s.offset), type(s.gain).__name__, type(s.offset).__name__)  # noqa: E731
    for g, o in ((2.0, 1.0), (0.0, -3.5), (1e300, 1e-300), (2.0, 0.0), (2.0, -0.0), (-0.0, 1.25), (0.0, 1.25), (2, 0), (True, False), (2.0, 0.0), (-2.0, -0.0),
                 (np.float64(2.0), np.float32(-0.0)), (5e-324, -5e-324)):
        sm_ = LinearScaleMode(g, o)
        check_value(ctx, "ScaleMode", sm_, smobs)
        wsm = AnalogWaveform.from_array_1d(np.array([-0.0, 0.0, 1.5, -2.0]), np.float64, scale_mode=sm_)
        check_value(ctx, "AnalogWaveform(scale mode with signed zeros)", wsm,
                    lambda w_: (smobs(w_.scale_mode), [repr(float(z)) for z in w_.scaled_data], w_.raw_data.tobytes()))
    for d in ({}, {"a": 1}, {"NI_ChannelName": "x", "b": 2.5, "c": True, "d": "é"}):
        def mut(e):
            e["zz"] = 1
        check_value(ctx, "ExtendedPropertyDictionary", ExtendedPropertyDictionary(d), lambda e: list(e.items()), mut)
    # ---- Scalar / Vector / XYData ------------------------------------------------------------------------------------
    for v in (True, False, 0, -5, 10**30, 1.5, float("inf"), "", "volts é", 1, 1.0, True, 0.0, -0.0, 0, False, 2**63, 2.0**63, "1", np.float64(-0.0)):
        for units in ("", "V"):
            check_value(ctx, "Scalar", Scalar(v, units), lambda s: (type(s.value).__name__, repr(s.value), s.units, list(s.extended_properties.items())))
    vecs = [Vector([1, 2, 3], "A"), Vector([True, False]), Vector([1.5, 2.5]), Vector(["a", "b"]), Vector([], value_type=float),
            Vector([1, True, 2])]
    emptied = Vector([1, 2]); del emptied[:]
    boolfirst = Vector([1, True]); del boolfirst[0]
    boolfirst2 = Vector([1, True, 2]); del boolfirst2[0]
    vecs += [emptied, boolfirst, boolfirst2]
    # value types that are strict subclasses of the four supported ones (NumPy scalars, an IntEnum, a user class), also after the vector
    # was emptied or lost the element the type came from
    for mk in (lambda: Vector([np.float64(1.5), np.float64(2.5)]), lambda: Vector([np.str_("a"), np.str_("b")]), lambda: Vector([_Color.RED, _Color.BLUE]),
               lambda: Vector([_MyFloat(1.25), _MyFloat(2.0)]), lambda: Vector([np.int64(3), np.int64(4)]) if issubclass(np.int64, int) else Vector([3, 4])):
        full = mk(); vecs.append(full)
        e1 = mk(); e1.clear(); vecs.append(e1)
        e2 = mk(); del e2[0]; vecs.append(e2)
        e3 = mk(); e3[:] = []; vecs.append(e3)
    # long vectors (whatever a compact encoding would do with them): 64-bit edge values mixed with small ones, huge ints, signed zeros,
    # NaN-free floats of every magnitude, bools inside an int vector, long str vectors
    edge = [0, 1, -1, 255, 2 ** 31, -2 ** 31, 2 ** 32 - 1, 2 ** 53 + 1, 2 ** 63 - 1, 2 ** 63, 2 ** 63 + 1, 2 ** 64 - 1, -2 ** 63, -2 ** 63 - 1, 2 ** 64, 10 ** 30]
    for nrep in (2, 3, 7):
        vecs.append(Vector((edge[:12] + edge[12:13]) * nrep))                 # everything inside [-2**63, 2**64)
        vecs.append(Vector(edge * nrep))                                        # with values beyond 64 bits
        vecs.append(Vector([2 ** 63 + k for k in range(16 * nrep)]))           # all in [2**63, 2**64)
        vecs.append(Vector([1, True, 2 ** 63, False] * (8 * nrep)))
        vecs.append(Vector([0.0, -0.0, 1e-320, 1e308, -2.5, 2.0 ** 63] * (6 * nrep)))
        vecs.append(Vector([True, False] * (16 * nrep)))
        vecs.append(Vector([str(k) for k in range(33 * nrep)]))

    def vobs(v):
        return ([(type(x).__name__, repr(x)) for x in v], v.units, v._value_type.__name__, list(v.extended_properties.items()))

    def vmut(v):
        t = v._value_type
        base = {"int": 7, "bool": True, "float": 1.0, "str": "q"}
        if t.__name__ in base and t in (int, bool, float, str):
            v.append(base[t.__name__])
        elif issubclass(t, enum.Enum):
            v.append(list(t)[0])
        else:
            v.append(t(base["str" if issubclass(t, str) else "float" if issubclass(t, float) else "int"]))
    for v in vecs:
        check_value(ctx, "Vector", v, vobs, vmut)
        # the copy accepts exactly what the original accepts
        for how in ("default", "deepcopy"):
            c = dup(v, how)
            for probe in (7, True, 1.5, "s"):
                a, b = outcome(lambda: copy.deepcopy(v).append(probe)), outcome(lambda: copy.deepcopy(c).append(probe))
                if a[0] != b[0]:
                    ctx.violation(what="copy has another value type", type="Vector", how=how, values=vobs(v)[0], probe=repr(probe),
                                  observed=b[0], required=a[0])
    # values whose extended properties were edited after construction: the units entry removed, replaced, other keys added
    def edited(obj, keys):
        out = []
        for k in keys:
            a = copy.deepcopy(obj); a.extended_properties.pop(k, None); out.append(a)
            b = copy.deepcopy(obj); b.extended_properties[k] = "kV"; b.extended_properties["extra"] = 3; out.append(b)
        return out
    for sobj in edited(Scalar(1.5, "V"), ["NI_UnitDescription"]) + edited(Scalar("s"), ["NI_UnitDescription"]):
        check_value(ctx, "Scalar(edited properties)", sobj, lambda s: (type(s.value).__name__, s.value, s.units, list(s.extended_properties.items())))
    for vobj in edited(Vector([1, 2], "V"), ["NI_UnitDescription"]):
        check_value(ctx, "Vector(edited properties)", vobj, vobs, vmut)
    for xobj in edited(XYData(np.array([1.0, 2.0]), np.array([3.0, 4.0]), x_units="s", y_units="V"), ["NI_UnitDescription_X", "NI_UnitDescription_Y"]):
        check_value(ctx, "XYData(edited properties)", xobj, lambda c: (c.x_data.tolist(), c.y_data.tolist(), str(c.dtype), c.x_units, c.y_units, list(c.extended_properties.items())))
    for xd in (np.int32, np.float64):
        x = XYData(np.array([1, 2, 3], xd), np.array([4, 5, 6], xd), x_units="s", y_units="V")

        def xmut(c):
            c.x_data[0] = 9
        check_value(ctx, "XYData", x, lambda c: (c.x_data.tolist(), c.y_data.tolist(), str(c.dtype), c.x_units, c.y_units,
                                                list(c.extended_properties.items())), xmut)
    # ---- after any call — accepted or rejected — on a borrowed / read-only buffer the object must still pickle and deep-copy to
    # an equal value (hidden state that a rejected call left behind shows up here)
    def bjudge(info, w, before, o, after):
        for how in ("default", "deepcopy"):
            r = outcome(dup, w, how)
            if r[0] != "ok" or not (r[1] == w) or H.observe(r[1]).get("count") != after.get("count"):
                ctx.violation(what="a waveform cannot be pickled / deep-copied to an equal value after a call", how=how,
                              call_outcome=show(o)[:100], observed=show(r)[:200], required="an equal copy", **info)
                return False
        return True
    ctx.extra["borrowed_buffer_calls"] = H.borrowed_cases(ctx, bjudge, quick_subset=True)
    # ---- a copy compares like its original against every third object: two waveforms laid over ONE buffer object at different offsets
    # (from_array_1d / load_data with copy=False) are equal exactly when the samples they show are, and so are their copies
    from nitypes.waveform import AnalogWaveform as _AW, ComplexWaveform as _CW, Spectrum as _SP
    for cls_, dty_ in ((_AW, np.float64), (_AW, np.int32), (_CW, np.complex128), (_SP, np.float64)):
        for pattern in ("periodic", "zeros", "ramp"):
            buf = {"periodic": np.array([1, 2, 3] * 4, dty_), "zeros": np.zeros(12, dty_), "ramp": np.arange(12).astype(dty_)}[pattern]
            for s1, s2, n_ in ((0, 3, 3), (0, 6, 3), (3, 9, 3), (0, 1, 3), (2, 2, 4), (0, 3, 0), (1, 4, 5)):
                for route in ("factory", "load"):
                    def mk(st):
                        if route == "factory":
                            return cls_.from_array_1d(buf, dty_, copy=False, start_index=st, sample_count=n_)
                        w_ = cls_.from_array_1d(np.zeros(1, dty_), dty_)
                        w_.load_data(buf, copy=False, start_index=st, sample_count=n_)
                        return w_
                    a_, b_ = mk(s1), mk(s2)
                    want = buf[s1:s1 + n_].tolist() == buf[s2:s2 + n_].tolist()
                    got = [outcome(lambda: a_ == b_), outcome(lambda: b_ == a_), outcome(lambda: not (a_ != b_))]
                    cps = [outcome(lambda: dup(a_, how) == b_) for how in ("default", "deepcopy")]
                    ctx.case(("same-buffer-windows", cls_.__name__, str(np.dtype(dty_)), pattern, s1, s2, n_, route))
                    if any(g != ("ok", want) for g in got + cps):
                        ctx.violation(what="equality of two waveforms over one buffer object (and of their copies) is not equality of what they show", type=cls_.__name__, dtype=str(np.dtype(dty_)),
                                      buffer=pattern, windows=f"[{s1}:{s1 + n_}] and [{s2}:{s2 + n_}]", route=route,
                                      observed=f"a==b {show(got[0])}, b==a {show(got[1])}, not(a!=b) {show(got[2])}, copy(a)==b {show(cps[0])} / {show(cps[1])}", required=str(want))
                        break
    # ---- waveforms through histories (slack, borrowed buffers, names cache) -----------------------------------------------
    world = H.World(rng)
    w = {"appa": 3, "appw": 2, "load": 3, "setcount": 2, "setcap": 2, "settiming": 2, "write": 1, "get": 0, "pickle": 4, "bad": 0}
    n_hist = 600 if ctx.quick else 3000
    for i in range(n_hist):
        kind = ["analog", "complex", "spectrum", "digital"][i % 4]
        name = H.gen_history(world, kind, rng.randint(1, 10 if ctx.quick else 30), weights=w)
        if name is None:
            continue
        k, o = world.objs[name]
        if kind == "spectrum" and rng.random() < 0.6:
            o.start_frequency = rng.choice([5, 0, 2.5, -3, 1e6, True, -0.0, 0.0, 5e-324, float("inf")])
            o.frequency_increment = rng.choice([2, 1, 0.25, 10**6, -0.0, 0.0])
        if kind == "digital" and rng.random() < 0.7:
            _ = [s.name for s in o.signals]       # populate the name cache
            if rng.random() < 0.6:
                # names as a user may type them: padded, or containing the separator
                o.signals[rng.randrange(o.signal_count)].name = rng.choice(["n0", " clk ", "d0,d1", "x ", "\tq", "a, b"])
            # ... and then the names change underneath the cache, by every route there is: a merge of another waveform's
            # properties (append), direct writes to and removal of the NI_LineNames entry, further renames
            for _step in range(rng.choice([0, 1, 1, 2, 3])):
                c = rng.random()
                try:
                    if c < 0.4:
                        names = ", ".join(rng.choice(["data", "clk", " p", "q "]) + str(j) for j in range(o.signal_count))
                        src = DigitalWaveform(rng.choice([0, 1, 2]), o.signal_count, o.dtype,
                                              extended_properties=rng.choice([{H.LINE_NAMES: names}, {H.LINE_NAMES: names, "z": 1}, {"z": 2}, {}]))
                        if o.timing.sample_interval_mode == SampleIntervalMode.IRREGULAR:
                            if src.sample_count:
                                continue
                            src.timing = Timing.create_with_irregular_interval([])
                        o.append(src if rng.random() < 0.5 else [src])
                    elif c < 0.55:
                        o.extended_properties[H.LINE_NAMES] = rng.choice(["u, v, w", "", "only", " a ,b "])
                    elif c < 0.7:
                        o.extended_properties.pop(H.LINE_NAMES, None)
                    elif c < 0.85:
                        o.signals[rng.randrange(o.signal_count)].name = rng.choice(["r0", " r1 ", ""])
                    else:
                        _ = [s.name for s in o.signals]
                except Exception:  # noqa: BLE001 - a refused step changes nothing (C07's business)
                    pass
                ctx.count("names-step", "merge" if c < 0.4 else "write" if c < 0.55 else "delete" if c < 0.7 else "rename" if c < 0.85 else "read")

        def wobs(x, k=k):
            extra = ()
            if k == "digital":
                extra = (tuple(s.name for s in x.signals),)
            if k == "spectrum":
                extra = (repr(x.start_frequency), repr(x.frequency_increment))      # value and type (5 is not 5.0 for an observer)
            t = getattr(x, "_timing", None)
            return (world.snap(k, x).split(" ", 3)[3], None if t is None else tobs(t), type(getattr(x, "_scale_mode", None)).__name__) + extra

        def wmut(c, k=k):
            c.extended_properties["mut"] = "1"
            view = c.raw_data if k in ("analog", "complex") else c.data
            if len(view):
                if k == "digital":
                    view[0, :] = 1 - (view[0, :] != 0)
                elif str(c.dtype).startswith("[("):
                    view[0] = (5, 5)
                else:
                    view[0] = view[0] + 1

        def wgrow(c, k=k):
            # a structural change the original accepts: one more sample than the capacity holds
            t = getattr(c, "_timing", None)
            if t is not None and t.sample_interval_mode == SampleIntervalMode.IRREGULAR:
                return          # (needs matching timestamps; the write mutation above covers these)
            extra = c.capacity - c.sample_count + 1
            if k == "digital":
                c.append(np.zeros((extra, c.signal_count), c.dtype))
            else:
                c.append(np.zeros(extra, c.dtype))
        check_value(ctx, "waveform:" + kind, o, wobs, wmut)
        if rng.random() < 0.5:
            check_value(ctx, "waveform-grow:" + kind, o, wobs, wgrow, must_mutate=True)
        # the same observable state with different slack compares equal
        if kind in ("analog", "spectrum") and o.sample_count:
            data = (o.raw_data if kind == "analog" else o.data).copy()
            pad = np.concatenate([data[:1], data, data[:1], data[:1]])
            kw = dict(start_index=1, sample_count=len(data), extended_properties=dict(o.extended_properties))
            try:
                if kind == "analog":
                    twin = AnalogWaveform(raw_data=pad, timing=o.timing, scale_mode=o.scale_mode, **kw)
                else:
                    twin = type(o)(data=pad, **kw)
                    twin.start_frequency, twin.frequency_increment = o.start_frequency, o.frequency_increment
            except Exception:  # noqa: BLE001 - an inconsistent original (another property's violation) has no twin
                twin = None
            if twin is not None and not (twin == o):
                ctx.violation(what="equal observable state, different slack", type=kind, observed="not equal", required="equal")
    # long waveforms (NumPy's own unpickling treats array payloads of more than about 1000 bytes differently from short ones under
    # protocols 2-4: the array is rebuilt on top of the pickle's bytes): the copy shows the same state and can be grown, loaded and
    # given a larger capacity exactly like the original
    from nitypes.waveform import AnalogWaveform as _AW, ComplexWaveform as _CW, Spectrum as _SP
    for n in (125, 126, 130, 300, 2000) if ctx.quick else (63, 64, 125, 126, 127, 130, 250, 251, 300, 1000, 1001, 2000, 70000):
        for kind_, mk in (("analog", lambda: _AW.from_array_1d(np.arange(n, dtype=np.float64) * 0.5, np.float64)),
                          ("analog", lambda: _AW.from_array_1d(np.arange(n, dtype=np.int16), np.int16)),
                          ("complex", lambda: _CW.from_array_1d(np.arange(n, dtype=np.complex128) * (1 + 2j), np.complex128)),
                          ("spectrum", lambda: _SP.from_array_1d(np.arange(n, dtype=np.float64) + 0.25, np.float64)),
                          ("digital", lambda: DigitalWaveform.from_lines(np.arange(3 * n, dtype=np.uint8).reshape(n, 3) % 2, np.uint8))):
            r = outcome(mk)
            if r[0] != "ok":
                continue
            lw = r[1]

            def lobs(x, k=kind_):
                view = x.raw_data if k in ("analog", "complex") else x.data
                return (str(x.dtype), view.shape, view.tobytes(), dict(x.extended_properties))

            def lgrow(c, k=kind_):
                extra = c.capacity - c.sample_count + 1
                c.append(np.zeros((extra, c.signal_count), c.dtype) if k == "digital" else np.zeros(extra, c.dtype))

            def lcap(c):
                c.capacity = c.capacity + 7
            check_value(ctx, f"long-waveform-grow:{kind_}:{n}", lw, lobs, lgrow, must_mutate=True)
            check_value(ctx, f"long-waveform-capacity:{kind_}:{n}", lw, lobs, lcap, must_mutate=True)
    # Spectrum frequencies given to the constructor in every spelling of zero and of a float (the copy has the same value AND type)
    from nitypes.waveform import Spectrum
    for sf in (0.0, -0.0, np.float64(0.0), np.float64(-0.0), np.float64(2.5), np.float32(0.5), 3, True, 1e-320):
        for fi in (0.0, -0.0, np.float64(0.0), 1.0):
            r = outcome(lambda: Spectrum(3, np.float64, start_frequency=sf, frequency_increment=fi))
            if r[0] == "ok":
                check_value(ctx, "Spectrum(frequencies)", r[1], lambda x: (repr(x.start_frequency), repr(x.frequency_increment), type(x.start_frequency).__name__,
                                                                      type(x.frequency_increment).__name__, x.data.tobytes()))
    # several digital waveforms sharing one property dictionary, some of them gone (garbage collected) by the time the names change:
    # the survivor's names follow, and so do its copies
    import gc
    for case in range(30 if ctx.quick else 600):
        nsig = rng.randint(1, 4)
        first = DigitalWaveform(2, nsig, extended_properties={H.LINE_NAMES: ", ".join(f"a{j}" for j in range(nsig))})
        sharers = [first]
        for _k in range(rng.randint(1, 3)):
            sharers.append(copy.copy(sharers[-1]) if rng.random() < 0.5 else
                           DigitalWaveform(2, nsig, extended_properties=first.extended_properties, copy_extended_properties=False))
        for w_ in sharers:
            if rng.random() < 0.7:
                _ = [s_.name for s_ in w_.signals]
        keep = rng.randrange(len(sharers))
        survivor = sharers[keep]
        del sharers, first, w_
        gc.collect()
        for _step in range(rng.randint(1, 3)):
            c = rng.random()
            if c < 0.4:
                survivor.extended_properties[H.LINE_NAMES] = ", ".join(f"x{rng.randint(0, 9)}" for _ in range(nsig))
            elif c < 0.7:
                survivor.signals[rng.randrange(nsig)].name = f"r{rng.randint(0, 9)}"
            elif c < 0.85:
                survivor.extended_properties.pop(H.LINE_NAMES, None)
            else:
                src = DigitalWaveform(0, nsig, extended_properties={H.LINE_NAMES: ", ".join(f"m{j}" for j in range(nsig))})
                survivor.append(src)
        check_value(ctx, "DigitalWaveform(shared properties, sharers collected)", survivor,
                    lambda x: (tuple(s_.name for s_ in x.signals), list(x.extended_properties.items()), x.data.tobytes()))
    # names that arrive AFTER they were read (every route by which NI_LineNames can appear, change or vanish on a waveform whose name
    # cache is filled): what the original shows must be what its copies show
    name_obs = lambda x: (tuple(s_.name for s_ in x.signals), list(x.extended_properties.items()), x.data.tobytes())
    for nsig in (1, 2, 3):
        for had in (False, True):
            for route in ("append-waveform", "append-list", "setitem", "update-dict", "update-pairs-iterator", "setdefault", "merge-dictionary", "del", "pop", "clear",
                          "rename-then-append"):
                props = {H.LINE_NAMES: ", ".join(f"a{j}" for j in range(nsig))} if had else {}
                w_ = DigitalWaveform(2, nsig, extended_properties=props)
                _ = [s_.name for s_ in w_.signals]               # fill the cache
                newv = ", ".join(f"n{j}" for j in range(nsig))
                src = DigitalWaveform(1, nsig, extended_properties={H.LINE_NAMES: newv, "other": "1"})
                ep = w_.extended_properties
                r = outcome(lambda: {"append-waveform": lambda: w_.append(src), "append-list": lambda: w_.append([src, src]),
                                     "setitem": lambda: ep.__setitem__(H.LINE_NAMES, newv), "update-dict": lambda: ep.update({H.LINE_NAMES: newv}),
                                     "update-pairs-iterator": lambda: ep.update(iter([(H.LINE_NAMES, newv)])), "setdefault": lambda: ep.setdefault(H.LINE_NAMES, newv),
                                     "merge-dictionary": lambda: ep._merge(src.extended_properties), "del": lambda: ep.__delitem__(H.LINE_NAMES),
                                     "pop": lambda: ep.pop(H.LINE_NAMES, None), "clear": lambda: ep.clear(),
                                     "rename-then-append": lambda: (setattr(w_.signals[0], "name", "r"), w_.append(src))}[route]())
                ctx.count("names-after-read", route)
                check_value(ctx, f"DigitalWaveform(names read, then {route}; NI_LineNames {'present' if had else 'absent'} before)", w_, name_obs)
    for r in world.records:
        if r["line"].startswith("wpickle") and r["err"] is not None:
            ctx.violation(what="pickle/deepcopy failed in history", line=r["line"], observed=r["err"], required="a copy")
        ctx.count("op", r["line"].split()[0])
    ctx.extra["histories"] = n_hist
    ctx.extra["model_lines_compared"] = H.compare_with_model(ctx, world)
    ctx.sample({"type": "Vector", "case": "Vector([1, True]); del v[0]; pickle -> value type must stay int"})
    for line, exp in [(l, e) for l, e in zip(world.lines, world.expect) if l.startswith("wpickle")][:5]:
        ctx.sample({"request": line, "response": exp[:200]})


def replay(doc):
    print(doc.get("input"))
    return 0
