"""C17 — DateTimeArray and TimeDeltaArray behave exactly like a list of their elements."""
from __future__ import annotations

import itertools
import operator

from props.common import I128_MAX, I128_MIN, base_of, outcome, show

PID = "C17"
LEAN_MODULE = "NiVerif.Props.C17"
NAMESPACE = "Props.C17"
DRIVER = "drivers/C17.lean"
GEN_MODULES = ["BtArray"]
EXTRA_LEAN_MODULES = ["NiVerif.Model.BtArray"]
THEOREMS = ["clamp_bounds", "indices_step1", "rangeLen_step1", "scatter_consecutive", "setSlice_refines", "insert_refines",
            "append_refines", "item_ops_refine", "slice_read_delete_refine", "pop_refines", "remove_refines",
            "errors_as_list", "zero_step_ValueError",
            "gen_setitem_slice_eq_model", "gen_delitem_int_eq_model", "gen_delitem_slice_eq_model", "gen_insert_eq_model", "contains_range1", "filter_outside",
            "delSlice_contiguous", "setSlice_contiguous",
            # T27: integer indexing (_validate_index, the int branches of __getitem__ / __setitem__)
            "gen_validate_index_spec", "getItem_out_of_range", "cIndex_in_range", "gen_getitem_int_eq_model", "gen_setitem_at_eq_model", "gen_int_index_never_overflows"]
RULE = ("four-way differential on every operation: the real DateTimeArray / TimeDeltaArray, a real Python list subjected to "
        "the same operation, the Lean list specification (Py/ListSpec.lean) and the Lean model of the implementation's "
        "algorithm (Model/BtArray.lean). Exhaustive part: every slice (start, stop in None/-7..7, step in None/-3..3 incl. 0) "
        "x array length 0..5 x replacement length 0..4 for slice assignment, deletion and reading, every int index -7..7 "
        "for get/set/del/insert/pop; seeded part: operation sequences (insert, append, extend incl. with itself, +=, pop, "
        "remove, reverse, clear, index, count, iteration, len, ==, slices of slices) with elements over the full 128-bit "
        "range and wrong-typed elements / indices")
TRUSTED = ["Py/Slice.lean + Py/ListSpec.lean (Python slice.indices / list semantics) — differentially tested against a "
           "real Python list on the same exhaustive domain each run",
           "Model/BtArray.lean (NumPy indexing / np.delete / np.insert / np.append collapsed to list operations) compared "
           "with the real classes on the same domain"]
ASSUMPTIONS = ["indices are int (incl. bool, which is an int) / slice; other __index__ objects (np.int64 …) are rejected by the classes with TypeError and are "
               "outside the property's text, DESIGN.md §10"]


def fmt(x):
    return "-" if x is None else str(x)


def run(ctx):
    import nitypes.bintime as bt
    rng = ctx.rng
    classes = [(bt.TimeDelta, bt.TimeDeltaArray), (bt.DateTime, bt.DateTimeArray)]
    lines, exp_list = [], []

    def ticks(a):
        return [x.ticks for x in a]

    DONORS = {"use": False, "live": []}

    def apply(kind, a, l, cls, acls, op):
        """Apply `op` to the real array `a` and the list `l`; returns (array outcome text, list outcome text)."""
        name = op[0]
        def mk(vs):
            items = [cls.from_ticks(v) for v in vs]
            if DONORS["use"] == "iter" and name in ("extend", "iadd", "setslice"):
                # a one-shot iterable: generator, iterator, map, reversed
                k = DONORS["n"] = DONORS.get("n", 0) + 1
                return [iter(items), (x for x in items), map(lambda x: x, items), reversed(items[::-1])][k % 4]
            if DONORS["use"] is True and name in ("extend", "iadd", "setslice"):
                # the argument is itself an array: it must neither be changed by the call nor share storage with `a` afterwards
                src = acls(items)
                DONORS["live"].append((src, list(vs)))
                return src
            return items
        def on_arr():
            if name == "get": return a[op[1]].ticks
            if name == "set": a[op[1]] = cls.from_ticks(op[2]); return None
            if name == "del": del a[op[1]]; return None
            if name == "getslice": return ticks(a[slice(*op[1:4])])
            if name == "setslice": a[slice(*op[1:4])] = mk(op[4]); return None
            if name == "delslice": del a[slice(*op[1:4])]; return None
            if name == "insert": a.insert(op[1], cls.from_ticks(op[2])); return None
            if name == "append": a.append(cls.from_ticks(op[1])); return None
            if name == "extend": a.extend(mk(op[1])); return None
            if name == "extendself": a.extend(a); return None
            if name == "setself": a[slice(*op[1:4])] = a; return None
            if name == "setselfslice": a[slice(*op[1:4])] = a[slice(*op[4:7])]; return None
            if name == "iadd":
                b = a; b += mk(op[1]); return None
            if name == "pop": return a.pop(op[1]).ticks
            if name == "remove": a.remove(cls.from_ticks(op[1])); return None
            if name == "reverse": a.reverse(); return None
            if name == "clear": a.clear(); return None
            if name == "index": return a.index(cls.from_ticks(op[1]))
            if name == "count": return a.count(cls.from_ticks(op[1]))
            if name == "len": return len(a)
        def on_list():
            if name == "get": return l[op[1]]
            if name == "set": l[op[1]] = op[2]; return None
            if name == "del": del l[op[1]]; return None
            if name == "getslice": return l[slice(*op[1:4])]
            if name == "setslice": l[slice(*op[1:4])] = list(op[4]); return None
            if name == "delslice": del l[slice(*op[1:4])]; return None
            if name == "insert": l.insert(op[1], op[2]); return None
            if name == "append": l.append(op[1]); return None
            if name in ("extend", "iadd"): l.extend(op[1]); return None
            if name == "extendself": l.extend(l); return None
            if name == "setself": l[slice(*op[1:4])] = l; return None
            if name == "setselfslice": l[slice(*op[1:4])] = l[slice(*op[4:7])]; return None
            if name == "pop": return l.pop(op[1])
            if name == "remove": l.remove(op[1]); return None
            if name == "reverse": l.reverse(); return None
            if name == "clear": l.clear(); return None
            if name == "index": return l.index(op[1])
            if name == "count": return l.count(op[1])
            if name == "len": return len(l)
        oa, ol = outcome(on_arr), outcome(on_list)
        def text(o, state):
            if o[0] == "err":
                return "err " + o[1]
            r = o[1]
            if name in ("get", "index"):
                return f"ok {r}"
            if name == "pop":
                return f"ok {r} [" + ",".join(map(str, state)) + "]"
            if name in ("count", "len"):
                return f"ok {r}"
            if name == "getslice":
                return "ok [" + ",".join(map(str, r)) + "]"
            return "ok [" + ",".join(map(str, state)) + "]"
        ta, tl = text(oa, ticks(a)), text(ol, l)
        if ta != tl or ticks(a) != l or len(a) != len(l):
            ctx.violation(what="array differs from list", cls=acls.__name__, op=str(op)[:200], observed=f"{ta} state={ticks(a)}"[:300],
                          required=f"{tl} state={l}"[:300])
        return tl

    def line_of(op):
        name = op[0]
        if name in ("getslice", "delslice"):
            return f"{name} {fmt(op[1])} {fmt(op[2])} {fmt(op[3])}"
        if name == "setslice":
            return f"setslice {fmt(op[1])} {fmt(op[2])} {fmt(op[3])} [{','.join(map(str, op[4]))}]"
        if name in ("extend", "iadd"):
            return f"extend [{','.join(map(str, op[1]))}]"
        return " ".join([name] + [str(int(x) if isinstance(x, bool) else x) for x in op[1:]])     # a bool index is the integer 0 / 1

    def run_case(cls, acls, init, ops, array_args=False):
        first = [cls.from_ticks(v) for v in init]
        a = acls(first) if array_args != "iter" else acls(iter(first) if len(init) % 2 else (x for x in first))
        l = list(init)
        DONORS["use"], DONORS["live"] = array_args, []
        lines.append(f"new [{','.join(map(str, init))}]"); exp_list.append("ok [" + ",".join(map(str, init)) + "]")
        for op in ops:
            if op[0] in ("setself", "setselfslice"):
                # for the model this is an ordinary slice assignment of the values the list holds right now
                vals_now = list(l) if op[0] == "setself" else l[slice(*op[4:7])]
                self_line = f"setslice {fmt(op[1])} {fmt(op[2])} {fmt(op[3])} [{','.join(map(str, vals_now))}]"
            else:
                self_line = None
            tl = apply(None, a, l, cls, acls, op)
            for src, vals in DONORS["live"]:
                if ticks(src) != vals:
                    ctx.violation(what="an operation on one array changed another array (shared storage)", cls=acls.__name__, op=str(op)[:200],
                                  observed=str(ticks(src))[:200], required=str(vals)[:200])
                    DONORS["live"] = []
                    break
            lines.append(self_line or line_of(op)); exp_list.append(tl)
            ctx.case((acls.__name__, tuple(init), str(op)))
            ctx.count("op", op[0])
            ctx.count("outcome", tl.split()[0] if tl.startswith("ok") else tl.split()[1])

    # ---- exhaustive small domain ----------------------------------------------------------------------------------
    bounds = [None] + list(range(-7, 8))
    steps = [None, 1, 2, 3, -1, -2, -3, 0]
    lens = range(0, 6)
    cls, acls = classes[ctx.seed % 2]
    full = not ctx.quick
    for n in lens:
        init = list(range(100, 100 + n))
        for st, sp, se in itertools.product(bounds, bounds, steps):
            if not full and rng.random() > 0.04:
                continue
            run_case(cls, acls, init, [("getslice", st, sp, se)])
            run_case(cls, acls, init, [("delslice", st, sp, se)])
            for m in range(0, 5):
                if not full and rng.random() > 0.5:
                    continue
                run_case(cls, acls, init, [("setslice", st, sp, se, list(range(10, 10 + m)))])
        for i in list(range(-7, 8)) + [True, False]:      # bool is an int: True / False index elements 1 / 0, as in a list
            run_case(cls, acls, init, [("get", i)])
            run_case(cls, acls, init, [("set", i, 7)])
            run_case(cls, acls, init, [("del", i)])
            run_case(cls, acls, init, [("insert", i, 7)])
            run_case(cls, acls, init, [("pop", i)])
        # indices beyond the C integer ranges: an out-of-range integer index is an IndexError, as for a list (get / set / del); list.pop and
        # list.insert raise OverflowError there only because CPython parses their argument as a C ssize_t - the property asks for IndexError
        # (pop) and list.insert's clamping carries no such limit, so for those two the requirement is stated directly
        for cls2, acls2 in classes:
            for i in (2 ** 31, 2 ** 63 - 1, 2 ** 63, 2 ** 63 + 1, 2 ** 64 - 1, 2 ** 64, 10 ** 30, -2 ** 31 - 1, -2 ** 63, -2 ** 63 - 1, -2 ** 64, -10 ** 30):
                run_case(cls2, acls2, init, [("get", i)])
                run_case(cls2, acls2, init, [("set", i, 7)])
                run_case(cls2, acls2, init, [("del", i)])
                for nm, f in (("pop", lambda a_: a_.pop(i)), ("insert", lambda a_: a_.insert(i, cls2.from_ticks(7)))):
                    a_ = acls2([cls2.from_ticks(t) for t in init])
                    o = outcome(lambda: f(a_))
                    want_state = list(init) if nm == "pop" else (([7] + list(init)) if i < 0 else (list(init) + [7]))
                    ok = (o[0] == "err" and o[1] == "IndexError") if nm == "pop" else o[0] == "ok"
                    ctx.case(("huge-index", acls2.__name__, nm, i > 0, len(init)))
                    if not ok or [x.ticks for x in a_] != want_state:
                        ctx.violation(what="index beyond the C integer range", cls=acls2.__name__, op=f"{nm}({i})", initial=str(init), observed=f"{show(o)[:120]} state={[x.ticks for x in a_]}",
                                      required=("IndexError, array unchanged" if nm == "pop" else f"inserted at the {'front' if i < 0 else 'end'}: {want_state}"))
    ctx.exhaustive = full
    # ---- seeded operation sequences, 128-bit elements ---------------------------------------------------------------------
    big = [I128_MIN, I128_MAX, 0, 1, -1, 1 << 64, -(1 << 64), (1 << 64) - 1]
    for h in range(150 if ctx.quick else 6000):
        cls, acls = classes[h % 2]
        pool = [rng.choice(big) if rng.random() < 0.3 else rng.randint(-50, 50) for _ in range(6)]
        init = [rng.choice(pool) for _ in range(rng.randint(0, 6))]
        ops = []
        for _ in range(rng.randint(1, 12)):
            k = rng.choice(["get", "set", "del", "getslice", "setslice", "delslice", "insert", "append", "extend", "extendself", "setself", "setselfslice",
                            "iadd", "pop", "remove", "reverse", "clear", "index", "count", "len"])
            i = rng.randint(-8, 8)
            if rng.random() < 0.08:
                i = rng.choice([True, False])
            v = rng.choice(pool)
            sl = (rng.choice(bounds), rng.choice(bounds), rng.choice(steps))
            if k in ("get", "del", "pop"): ops.append((k, i))
            elif k in ("set", "insert"): ops.append((k, i, v))
            elif k in ("getslice", "delslice"): ops.append((k,) + sl)
            elif k == "setslice": ops.append((k,) + sl + ([rng.choice(pool) for _ in range(rng.randint(0, 5))],))
            elif k == "setself": ops.append((k,) + (rng.choice(bounds), rng.choice(bounds), rng.choice([None, None, 1, 1, -1, 2])))
            elif k == "setselfslice": ops.append((k,) + (rng.choice(bounds), rng.choice(bounds), rng.choice([None, 1])) + (rng.choice(bounds), rng.choice(bounds), rng.choice([None, 1, -1])))
            elif k in ("append", "remove", "index", "count"): ops.append((k, v))
            elif k in ("extend", "iadd"): ops.append((k, [rng.choice(pool) for _ in range(rng.randint(0, 3))]))
            else: ops.append((k,))
        if h % 3 == 1:
            run_case(cls, acls, init, ops, array_args="iter")
        elif h % 3 == 0:
            # start from an empty array and let extend / += / slice assignment take arrays as arguments
            run_case(cls, acls, [] if h % 2 else init, [("extend", [rng.choice(pool) for _ in range(rng.randint(1, 3))])] + ops, array_args=True)
        else:
            run_case(cls, acls, init, ops)
    # ---- growth histories: arrays that reach dozens of elements one append at a time, with reversals, pops and reads in between
    # (storage strategies - over-allocation, buffering - only show beyond a handful of elements) --------------------------------
    for h in range(40 if ctx.quick else 1500):
        cls, acls = classes[h % 2]
        ops = []
        for _ in range(rng.randint(12, 45)):
            k = rng.choices(["append", "reverse", "pop", "get", "set", "insert", "len", "extend", "del", "iadd"], [12, 3, 1, 1, 1, 1, 1, 1, 1, 1])[0]
            i = rng.randint(-3, 12)
            v = rng.randint(-50, 50)
            if k in ("get", "del", "pop"): ops.append((k, i))
            elif k in ("set", "insert"): ops.append((k, i, v))
            elif k == "append": ops.append((k, v))
            elif k in ("extend", "iadd"): ops.append((k, [rng.randint(-50, 50) for _ in range(rng.randint(0, 3))]))
            else: ops.append((k,))
        run_case(cls, acls, [rng.randint(-5, 5) for _ in range(rng.choice([0, 0, 1, 3]))], ops)
        ctx.count("history", "growth")
    # ---- iteration interleaved with mutation: an iterator over the array sees what an iterator over the list sees (index-based, live) ------
    for cls, acls in classes:
        mk = lambda vs: (acls([cls.from_ticks(v) for v in vs]), list(vs))
        scen = []
        scen.append(("remove inside the loop", lambda c, conv: [c.remove(x) for x in c]))
        def append_inside(c, conv):
            out = []
            for x in c:
                out.append(x)
                if len(c) < 8:
                    c.append(conv(len(c) + 100))
            return out
        scen.append(("append inside the loop", append_inside))
        def step_insert(c, conv):
            it = iter(c); first = next(it); c.insert(0, conv(77)); rest = list(it)
            return [first] + rest
        scen.append(("insert between two next() calls", step_insert))
        def step_set(c, conv):
            it = iter(c); first = next(it)
            if len(c) > 2:
                c[2] = conv(55)
            del c[1:2]
            return [first] + list(it)
        scen.append(("assign / delete between next() calls", step_set))
        def step_clear(c, conv):
            it = iter(c); first = next(it); c.clear()
            return [first] + list(it)
        scen.append(("clear between next() calls", step_clear))
        def rev_iter(c, conv):
            it = reversed(c); first = next(it); c.append(conv(9)); return [first] + list(it)
        scen.append(("reversed() with an append in between", rev_iter))
        for label, f in scen:
            for init in ([1], [1, 2, 3, 4], [5, 6, 7]):
                a, l = mk(init)
                oa = outcome(f, a, cls.from_ticks)
                ol = outcome(f, l, lambda v: v)
                ra = [getattr(x, "ticks", x) for x in oa[1]] if oa[0] == "ok" and oa[1] is not None else oa[:2]
                rl = list(ol[1]) if ol[0] == "ok" and ol[1] is not None else ol[:2]
                ctx.case(("iter-mutation", acls.__name__, label, str(init)))
                if ra != rl or [x.ticks for x in a] != l:
                    ctx.violation(what="iteration interleaved with mutation differs from a list", cls=acls.__name__, scenario=label, initial=str(init),
                                  observed=f"yielded {ra}, left {[x.ticks for x in a]}", required=f"yielded {rl}, left {l}")
    # ---- searching with values of other types: index / count / in / remove answer exactly as the list of the same elements does
    # (a datetime / hightime value is found iff it == an element, position by position; nothing is converted first) ---------------
    import datetime as dt
    import hightime as ht
    u = dt.timezone.utc
    for cls, acls in classes:
        if cls is bt.TimeDelta:
            elems = [bt.TimeDelta(0), bt.TimeDelta(ht.timedelta(microseconds=1)), bt.TimeDelta(1), bt.TimeDelta(ht.timedelta(microseconds=1)), bt.TimeDelta(-2.5),
                     bt.TimeDelta(ht.timedelta(seconds=3, femtoseconds=7))]
            needles = [dt.timedelta(0), dt.timedelta(seconds=1), dt.timedelta(microseconds=1), ht.timedelta(microseconds=1), ht.timedelta(seconds=3, femtoseconds=7),
                       ht.timedelta(seconds=-2.5), ht.timedelta(seconds=1), bt.TimeDelta(1), bt.TimeDelta(5), None, 0, 1, 1.0, "x", bt.DateTime.from_ticks(0)]
        else:
            mk = lambda **kw: bt.DateTime(ht.datetime(2024, 5, 6, 7, 8, 9, tzinfo=u, **kw))
            elems = [mk(), mk(microsecond=1), mk(femtosecond=3), mk(microsecond=1), bt.DateTime.from_ticks(0)]
            needles = [dt.datetime(2024, 5, 6, 7, 8, 9, tzinfo=u), dt.datetime(2024, 5, 6, 7, 8, 9, 1, tzinfo=u), ht.datetime(2024, 5, 6, 7, 8, 9, 1, tzinfo=u),
                       ht.datetime(2024, 5, 6, 7, 8, 9, femtosecond=3, tzinfo=u), dt.datetime(1904, 1, 1, tzinfo=u), mk(), bt.DateTime.from_ticks(5), None, 0, "x", bt.TimeDelta(0)]
        for needle in needles:
            for opn in ("index", "count", "in", "remove", "index-from", "index-window"):
                a, l = acls(list(elems)), list(elems)
                def run_on(c):
                    if opn == "index": return c.index(needle)
                    if opn == "count": return c.count(needle)
                    if opn == "in": return needle in c
                    if opn == "index-from": return c.index(needle, 2)
                    if opn == "index-window": return c.index(needle, -4, -1)
                    c.remove(needle); return None
                oa, ol = outcome(run_on, a), outcome(run_on, l)
                ctx.case(("needle", acls.__name__, repr(needle)[:40], opn))
                same = (oa[0] == ol[0]) and (oa[1] == ol[1] if oa[0] == "ok" else oa[1] == ol[1]) and [x.ticks for x in a] == [x.ticks for x in l]
                if not same:
                    ctx.violation(what="searching an array differs from searching the list of its elements", cls=acls.__name__, op=opn, needle=repr(needle)[:80],
                                  observed=f"{show(oa)[:80]} state={[x.ticks for x in a][:6]}", required=f"{show(ol)[:80]} state={[x.ticks for x in l][:6]}")
    # ---- wrong element / index types: TypeError and nothing inserted; equality; iteration -----------------------------------
    for cls, acls in classes:
        other = bt.DateTime if cls is bt.TimeDelta else bt.TimeDelta
        a = acls([cls.from_ticks(i) for i in range(3)])
        for label, f in (("setitem", lambda: a.__setitem__(0, other.from_ticks(1))), ("insert", lambda: a.insert(0, 5)),
                         ("append", lambda: a.append("x")), ("extend", lambda: a.extend([cls.from_ticks(9), 3])),
                         ("iadd", lambda: a.__iadd__([other.from_ticks(2)])), ("slice", lambda: a.__setitem__(slice(0, 1), [1])),
                         ("ctor", lambda: acls([cls.from_ticks(1), 2])), ("index-type", lambda: a["0"]),
                         ("index-type", lambda: a.__setitem__(1.0, cls.from_ticks(1))), ("index-type", lambda: a.__delitem__(None)),
                         ("insert-index", lambda: a.insert(1.5, cls.from_ticks(1)))):
            o = outcome(f)
            if o[:2] != ("err", "TypeError") or [x.ticks for x in a] != [0, 1, 2]:
                ctx.violation(what="wrong type not rejected with TypeError / something stored", cls=acls.__name__, call=label,
                              observed=show(o) + f" state={[x.ticks for x in a]}", required="TypeError, array unchanged")
            ctx.case(("type", acls.__name__, label))
        # one wrong-typed item at every position of the replacement of every small slice assignment / extension / insertion point: TypeError,
        # and the array holds what it held (nothing overwritten, inserted or removed before the item was looked at)
        bads = [7, "x", None, other.from_ticks(1), 1.5]
        for n0 in (0, 1, 3, 6):
            for st, sp, se in [(i, j, None) for i in range(0, n0 + 1) for j in range(0, n0 + 2)] + [(0, None, 2), (None, None, -1), (1, None, 2)]:
                for m in range(1, 6):
                    for pos in range(m):
                        a4 = acls([cls.from_ticks(100 + i) for i in range(n0)])
                        repl = [cls.from_ticks(10 + i) for i in range(m)]
                        repl[pos] = bads[(n0 + m + pos) % len(bads)]
                        o = outcome(lambda: a4.__setitem__(slice(st, sp, se), repl if (m + pos) % 2 else iter(repl)))
                        ctx.case(("bad-item-slice", acls.__name__, n0, st, sp, se, m, pos))
                        if o[:2] != ("err", "TypeError") or [x.ticks for x in a4] != [100 + i for i in range(n0)]:
                            ctx.violation(what="slice assignment with one wrong-typed item", cls=acls.__name__, length=n0, slice=f"[{st}:{sp}:{se}]", replacement_length=m, bad_item_at=pos,
                                          bad_item=repr(repl[pos])[:40], observed=show(o)[:100] + f" state={[x.ticks for x in a4]}", required="TypeError, array unchanged")
                            break
                    else:
                        continue
                    break
                else:
                    continue
                break
            else:
                continue
            break
        b = acls([cls.from_ticks(i) for i in range(3)])
        if not (a == b) or (a == acls([cls.from_ticks(0)])) or [x.ticks for x in iter(a)] != [0, 1, 2] or list(reversed(a))[0].ticks != 2:
            ctx.violation(what="== / iteration", cls=acls.__name__, observed="differs", required="element-wise equality, list order")
        sl = a[0:2]; sl[0] = cls.from_ticks(77)
        if a[0].ticks != 0:
            ctx.violation(what="slice result aliases the array", cls=acls.__name__, observed=a[0].ticks, required=0)
    # ---- equality of whole arrays is equality of the element lists: against arrays of the same class, of the OTHER class holding the
    #      same tick counts, lists, tuples and unrelated objects, in both operand orders, with == and != --------------------------------
    for n_el in (0, 1, 3):
        ticks_ = [rng.choice([0, 1, -1, (1 << 64) + 5, -(1 << 70)]) for _ in range(n_el)]
        dta = bt.DateTimeArray([bt.DateTime.from_ticks(t) for t in ticks_]); tda = bt.TimeDeltaArray([bt.TimeDelta.from_ticks(t) for t in ticks_])
        dtl, tdl = list(dta), list(tda)
        pool = [("DateTimeArray", dta, dtl), ("TimeDeltaArray", tda, tdl), ("DateTimeArray copy", bt.DateTimeArray(dtl), dtl), ("TimeDeltaArray copy", bt.TimeDeltaArray(tdl), tdl),
                ("list of DateTime", dtl, dtl), ("list of TimeDelta", tdl, tdl), ("tuple", tuple(tdl), tuple(tdl)), ("None", None, None), ("int", 5, 5)]
        for (la, xa, ma), (lb, xb, mb) in itertools.product(pool, repeat=2):
            if "Array" not in la and "Array" not in lb:
                continue
            both_arrays = "Array" in la and "Array" in lb
            # an array equals another array of its own class with equal elements; it is not a list / tuple and not an array of the other class
            want = both_arrays and la.split()[0] == lb.split()[0] and ma == mb
            if n_el == 0 and both_arrays and la.split()[0] != lb.split()[0]:
                continue                                     # two empty arrays of different classes: no element decides it
            o1, o2 = outcome(operator.eq, xa, xb), outcome(operator.ne, xa, xb)
            ctx.case(("array-eq", n_el, la, lb))
            if o1 != ("ok", want) or o2 != ("ok", not want):
                ctx.violation(what="array equality is not equality of the element lists", left=la, right=lb, elements=n_el, ticks=str(ticks_)[:80],
                              observed=f"== {show(o1)[:40]}, != {show(o2)[:40]}", required=f"== {want}, != {not want}")
    # ---- the 1-D NumPy primitives the generated methods are built from (Model/Np1.lean) against NumPy itself: slice assignment of a
    #      list (matching, broadcast and mismatching lengths), np.delete by slice and by index, np.insert - on the arrays' own record dtype
    #      and on plain int64 arrays ------------------------------------------------------------------------------------------------------
    import numpy as _np
    np1_lines, np1_want = [], []
    B = [None, -6, -3, -1, 0, 1, 2, 3, 6]

    def ren(l):
        return "[" + ",".join(str(int(x)) for x in l) + "]"

    def opt(x):
        return "-" if x is None else str(x)
    combos = []
    for ln in range(0, 5):
        for st_ in (None, 1, 2, -1, -2, 3):
            for a_ in B:
                for b_ in B:
                    combos.append((ln, a_, b_, st_))
    if ctx.quick:
        combos = combos[::3]
    for ln, a_, b_, st_ in combos:
        base = list(range(10, 10 + ln))
        for vl in (0, 1, 2, 3):
            vs = list(range(70, 70 + vl))
            arr = _np.array(base, _np.int64)
            o = outcome(lambda: arr.__setitem__(slice(a_, b_, st_), vs))
            np1_lines.append(f"np1 set {ren(base)} {opt(a_)} {opt(b_)} {opt(st_)} {ren(vs)}")
            np1_want.append("ok " + ren(arr.tolist()) if o[0] == "ok" else "err " + o[1])
        arr = _np.array(base, _np.int64)
        o = outcome(lambda: _np.delete(arr, slice(a_, b_, st_)))
        np1_lines.append(f"np1 del {ren(base)} {opt(a_)} {opt(b_)} {opt(st_)}")
        np1_want.append("ok " + ren(o[1].tolist()) if o[0] == "ok" else "err " + o[1])
    for ln in range(0, 5):
        base = list(range(10, 10 + ln))
        for p_ in range(-7, 8):
            arr = _np.array(base, _np.int64)
            o = outcome(lambda: _np.delete(arr, p_))
            np1_lines.append(f"np1 delat {ren(base)} {p_}")
            np1_want.append("ok " + ren(o[1].tolist()) if o[0] == "ok" else "err " + o[1])
            for vl in (0, 1, 2):
                vs = list(range(70, 70 + vl))
                o = outcome(lambda: _np.insert(arr, p_, vs))
                np1_lines.append(f"np1 ins {ren(base)} {p_} {ren(vs)}")
                np1_want.append("ok " + ren(o[1].tolist()) if o[0] == "ok" else "err " + o[1])
    # NumPy's own integer indexing, including the window in which its index conversion overflows (tier T27)
    for base in ([], [5], [5, 6, 7]):
        arr = _np.array(base, dtype=_np.int64)
        for k_ in list(range(-4, 5)) + [2 ** 31, 2 ** 63 - 1, 2 ** 63, 2 ** 63 + 1, 2 ** 64 - 1, 2 ** 64, 10 ** 30, -2 ** 63, -2 ** 63 - 1, -2 ** 64, -10 ** 30]:
            o = outcome(lambda: int(arr[k_]))
            np1_lines.append(f"np1 get {ren(base)} {k_}")
            np1_want.append(f"ok {o[1]}" if o[0] == "ok" else "err " + o[1])
            arr2 = arr.copy()
            o = outcome(lambda: arr2.__setitem__(k_, 9))
            np1_lines.append(f"np1 setat {ren(base)} {k_} 9")
            np1_want.append("ok " + ren(arr2.tolist()) if o[0] == "ok" else "err " + o[1])
    np1_res = ctx.model(np1_lines, driver="drivers/Np1.lean")
    for q, want, got in zip(np1_lines, np1_want, np1_res or []):
        ctx.case(("np1", q))
        if got != want:
            ctx.mismatch(stream="NumPy 1-D primitives (T17)", request=q, model_says=got, code_says=want)
            break
    ctx.extra["np1_lines"] = len(np1_lines)
    # ---- the two Lean sides --------------------------------------------------------------------------------------------------
    for drv, label in (("drivers/C17.lean", "implementation model"), ("drivers/C17spec.lean", "list specification")):
        res = ctx.model(lines, driver=drv)
        if res is None:
            continue
        for q, want, got in zip(lines, exp_list, res):
            g = got if not got.startswith("err ") else "err " + got.split()[-1]
            if g != want:
                ctx.mismatch(stream=label, request=q[:200], model_says=got[:200], code_says=want[:200])
                break
    ctx.extra["model_lines_compared"] = 2 * len(lines)
    for q, e in list(zip(lines, exp_list))[1:4000:500]:
        ctx.sample({"request": q[:120], "response": e[:120]})


def replay(doc):
    print(doc.get("input"))
    return 0
