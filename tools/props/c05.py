"""C05 — Complex-integer conversion is exact, layout-faithful and shape/stride agnostic."""
from __future__ import annotations

import math
import os
from fractions import Fraction

import numpy as np

from props.common import outcome, show

PID = "C05"
LEAN_MODULE = "NiVerif.Props.C05"
NAMESPACE = "Props.C05"
DRIVER = "drivers/C05.lean"
GEN_MODULES = ["ComplexDtypes", "ComplexConvert"]
EXTRA_LEAN_MODULES = ["NiVerif.Model.Complex"]
THEOREMS = ["ci32_layout", "supported_iff", "field_table", "bitlen_le", "roundNat_exact", "roundDy_int_exact",
            "field_to_float_exact", "trunc_toward_zero", "trunc_int", "field_to_int_is_trunc", "field_roundtrip",
            "pipeline_is_map", "convertElems_ok", "convertElems_indep", "convert_elementwise", "gather_map", "convert_view",
            "to_float_exact", "roundtrip", "to_int_truncates", "same_dtype_identity", "unsupported_dtype_TypeError",
            "roundNat_dvd_exact", "widen_exact", "c64_to_c128_exact",
            # T25: the generated convert_complex / _convert_complexint32_array (Gen/ComplexConvert.lean)
            "gen_inner_eq", "scalar_has_one", "gen_convert_complex_eq_model", "gen_convert_wf", "gen_to_float_exact", "gen_roundtrip",
            "gen_to_int_truncates"]
RULE = ("(1) every ComplexInt32 value: quick = all 2^16 real parts x 12 edge/seeded imaginary parts and the transposed set, "
        "thorough = all 2^32 (real, imag) pairs, converted to complex64 and complex128 and back, compared with values built "
        "from index arithmetic; (2) float inputs adjacent to every integer of the int16 range (n, n+-ulp, n+-0.5, n+-0.999) in "
        "both float widths against exact truncation toward zero; (3) complex64<->complex128 against IEEE rounding computed "
        "in exact rational arithmetic; (4) all nine dtype pairs x shapes 0-d..3-d x layouts (C, F, transposed, strided, "
        "reversed, column slice, broadcast, NumPy scalar) element by element with the shape; (5) unsupported requested "
        "dtypes; (6) seeded small arrays replayed through Model/Complex.lean; layout of ComplexInt32DType")
TRUSTED = ["hand model NiVerif/Model/Complex.lean over the generated tables (Gen/ComplexDtypes.lean, regenerated from "
           "complex/_dtypes.py and complex/_conversion.py on every run); NumPy's view/astype are the runtime: modelled as "
           "interleave / per-field rounding or truncation / de-interleave and tied by the exhaustive comparison",
           "IEEE exponent range (overflow to inf, subnormals) is not modelled; such values are compared with NumPy's own "
           "astype only"]
ASSUMPTIONS = ["float inputs to the ComplexInt32 conversion have parts in (-32769, 32768), as the property states"]

CI = None


def mk_ci(re, im):
    a = np.empty(np.shape(re), CI)
    a["real"] = re
    a["imag"] = im
    return a


def check_block(re, im, convert):
    """re, im: int16 arrays.  Returns None or a description of the first failing element."""
    a = mk_ci(re, im)
    for cdt, fdt in ((np.complex64, np.float32), (np.complex128, np.float64)):
        try:
            out = convert(cdt, a)
        except Exception as e:  # noqa: BLE001
            return dict(what=f"ComplexInt32 -> {np.dtype(cdt)} raised", observed=f"{type(e).__name__}: {e}"[:200], required="exact conversion")
        if out.dtype != np.dtype(cdt) or out.shape != a.shape:
            return dict(what="dtype/shape", observed=f"{out.dtype} {out.shape}", required=f"{np.dtype(cdt)} {a.shape}")
        bad = (out.real != re.astype(fdt)) | (out.imag != im.astype(fdt))
        if bad.any():
            k = int(np.flatnonzero(bad)[0])
            return dict(what=f"ComplexInt32 -> {np.dtype(cdt)} is not exact", real=int(re.flat[k]), imag=int(im.flat[k]),
                        observed=str(out.flat[k]), required=f"({int(re.flat[k])}{int(im.flat[k]):+d}j)")
        try:
            back = convert(CI, out)
        except Exception as e:  # noqa: BLE001
            return dict(what=f"{np.dtype(cdt)} -> ComplexInt32 raised", observed=f"{type(e).__name__}: {e}"[:200], required="exact conversion")
        if back.dtype != CI or back.shape != a.shape:
            return dict(what="round-trip dtype/shape", observed=f"{back.dtype} {back.shape}", required=f"{CI} {a.shape}")
        bad = (back["real"] != re) | (back["imag"] != im)
        if bad.any():
            k = int(np.flatnonzero(bad)[0])
            return dict(what=f"round trip through {np.dtype(cdt)} changed the value", real=int(re.flat[k]), imag=int(im.flat[k]),
                        observed=str(back.flat[k]), required=f"({int(re.flat[k])}, {int(im.flat[k])})")
    return None


def _worker(args):
    lo, hi = args
    import sys
    sys.path.insert(0, os.path.join(os.environ.get("NIVERIF_REPO", "/repo"), "src"))
    from nitypes.complex import convert_complex, ComplexInt32DType
    global CI
    CI = ComplexInt32DType
    i = np.arange(lo, hi, dtype=np.int64)
    re = (((i >> 16) ^ 0x8000) - 0x8000).astype(np.int16)
    im = (((i & 0xFFFF) ^ 0x8000) - 0x8000).astype(np.int16)
    return check_block(re, im, convert_complex)


def dy(x: float) -> str:
    n, d = float(x).as_integer_ratio()
    return f"{n}/{d.bit_length() - 1}"


def enc_arr(a) -> str:
    """elements of a complex / ComplexInt32 / real array in C order as dyadics"""
    flat = np.asarray(a).ravel()
    if flat.size == 0:
        return "_"
    out = []
    for e in flat.tolist():
        if isinstance(e, tuple):
            out.append(f"{e[0]}/0:{e[1]}/0")
        elif isinstance(e, complex):
            out.append(f"{dy(e.real)}:{dy(e.imag)}")
        else:
            out.append(f"{dy(e)}:0/0")
    return ",".join(out)


def dt_name(d) -> str:
    d = np.dtype(d)
    return "ComplexInt32DType" if d == CI else d.name


def shape_txt(sh) -> str:
    return "_" if len(sh) == 0 else "x".join(str(k) for k in sh)


def alias_dtypes(d):
    """equal dtypes that are other Python objects / other spellings"""
    import pickle
    d = np.dtype(d)
    out = [("same", d), ("pickled", pickle.loads(pickle.dumps(d)))]
    if d.names:
        out += [("field-list", np.dtype([(n, d.fields[n][0].str) for n in d.names])), ("descr", np.dtype(d.descr)),
                ("dict", np.dtype({"names": list(d.names), "formats": [d.fields[n][0] for n in d.names]}))]
    else:
        out += [("type", d.type), ("str", d.str), ("name", d.name), ("char", d.char)]
    return out


def alias_arrays(v):
    """the same array carrying an equal dtype that is another object"""
    import pickle
    out = [("same", v)]
    if isinstance(v, np.ndarray) and v.dtype.names:
        eq = np.dtype([(n, v.dtype.fields[n][0].str) for n in v.dtype.names])
        out += [("view-equal-dtype", v.view(eq)), ("pickled", pickle.loads(pickle.dumps(v)))]
        if v.flags.c_contiguous and v.ndim:
            out.append(("frombuffer", np.frombuffer(v.tobytes(), eq).reshape(v.shape)))
    elif isinstance(v, np.ndarray):
        out.append(("pickled", pickle.loads(pickle.dumps(v))))
    return out


def run(ctx):
    import warnings
    from nitypes.complex import convert_complex, ComplexInt32DType
    global CI
    CI = ComplexInt32DType
    rng = ctx.rng
    lines, expect = [], []
    # ---- layout ------------------------------------------------------------------------------------------------------
    f = CI.fields
    lay_ok = (CI.itemsize == 4 and list(CI.names) == ["real", "imag"] and f["real"][0] == np.dtype(np.int16) and f["real"][1] == 0
              and f["imag"][0] == np.dtype(np.int16) and f["imag"][1] == 2)
    ctx.case(("layout",))
    if not lay_ok:
        ctx.violation(what="ComplexInt32DType layout", observed=str(CI.fields) + f" itemsize {CI.itemsize}",
                      required="int16 real at offset 0, int16 imag at offset 2, itemsize 4")
    lines.append("clayout")
    expect.append(f"ok itemsize={CI.itemsize} " + ",".join(f"{n}@{f[n][1]}:{f[n][0].name}" for n in CI.names))
    # ---- (1) the integer domain --------------------------------------------------------------------------------------
    all16 = np.arange(-32768, 32768, dtype=np.int16)
    if not ctx.quick:
        import multiprocessing as mp
        step = 1 << 22
        jobs = [(lo, lo + step) for lo in range(0, 1 << 32, step)]
        with mp.Pool(min(14, os.cpu_count() or 1)) as pool:
            for k, res in enumerate(pool.imap_unordered(_worker, jobs, chunksize=4)):
                if res is not None:
                    ctx.violation(**res)
                    pool.terminate()
                    break
        ctx.extra["complexint32_values_checked"] = 1 << 32
        ctx.exhaustive = True
        ctx.evaluations += (1 << 32) * 4
        ctx.case(("all 2^32 values",), nontrivial=True)
    else:
        edge = [-32768, -32767, -1, 0, 1, 2, 255, 256, 32766, 32767] + [rng.randint(-32768, 32767) for _ in range(2)]
        n = 0
        for v in edge:
            other = np.full(all16.shape, v, np.int16)
            for re, im in ((all16, other), (other, all16)):
                res = check_block(re, im, convert_complex)
                n += re.size
                if res is not None:
                    ctx.violation(**res)
                    break
        re = np.array([rng.randint(-32768, 32767) for _ in range(1 << 16)], np.int16)
        im = np.random.default_rng(ctx.seed).integers(-32768, 32768, 1 << 16).astype(np.int16)
        res = check_block(re, im, convert_complex)
        if res is not None:
            ctx.violation(**res)
        n += re.size
        ctx.extra["complexint32_values_checked"] = n
        ctx.evaluations += n * 4
        ctx.case(("2^16 x edges",), nontrivial=True)
    # ---- (2) truncation toward zero ----------------------------------------------------------------------------------
    with warnings.catch_warnings():
        warnings.simplefilter("ignore")
        for cdt, fdt in ((np.complex64, np.float32), (np.complex128, np.float64)):
            ints = np.arange(-32768, 32768, dtype=np.float64)
            if ctx.quick:
                ints = np.concatenate([ints[:300], ints[32768 - 300:32768 + 300], ints[-300:], ints[::97]])
            cands = []
            for d in (0.0, 0.5, -0.5, 0.999, -0.999, 0.25, -0.75):
                cands.append((ints + d).astype(fdt))
            base = ints.astype(fdt)
            cands.append(np.nextafter(base, fdt(np.inf)))
            cands.append(np.nextafter(base, fdt(-np.inf)))
            vals = np.concatenate(cands)
            vals = vals[(vals > -32769) & (vals < 32768)]
            want = np.array([math.trunc(Fraction(float(v))) for v in vals.tolist()], np.int64)
            for part in ("real", "imag"):
                z = np.zeros(vals.shape, cdt)
                if part == "real":
                    z.real = vals; z.imag = vals[::-1]
                else:
                    z.imag = vals; z.real = vals[::-1]
                r = outcome(convert_complex, CI, z)
                if r[0] != "ok" or r[1].dtype != CI or r[1].shape != z.shape:
                    ctx.violation(what=f"{np.dtype(cdt)} -> ComplexInt32 failed or changed dtype/shape", observed=show(r)[:200], required=f"{CI} {z.shape}")
                    break
                out = r[1]
                got = out[part].astype(np.int64)
                bad = got != want
                ctx.evaluations += vals.size
                if bad.any():
                    k = int(np.flatnonzero(bad)[0]) if bad.any() else 0
                    ctx.violation(what=f"{np.dtype(cdt)} -> ComplexInt32 does not truncate toward zero", part=part, value=repr(float(vals[k])),
                                  observed=str(int(got[k])), required=str(int(want[k])))
                    break
            ctx.case(("truncation", np.dtype(cdt).name), nontrivial=True)
        # ---- (3) complex64 <-> complex128 -----------------------------------------------------------------------------
        m = 2000 if ctx.quick else 200000
        g = np.random.default_rng(ctx.seed + 1)
        x = np.concatenate([g.standard_normal(m) * 10.0 ** g.integers(-30, 30, m), [0.0, -0.0, 1.0, 16777217.0, 16777219.0, 1e-45, 3.5e38, 1e39,
                                                                                 float("inf"), float("-inf"), float("nan"), 2.0 ** -126, 2.0 ** -149]])
        z128 = (x + 1j * x[::-1]).astype(np.complex128)
        r = outcome(convert_complex, np.complex64, z128)
        if r[0] != "ok" or r[1].shape != z128.shape or r[1].dtype != np.complex64:
            ctx.violation(what="complex128 -> complex64 failed or changed dtype/shape", observed=show(r)[:200], required="complex64, same shape")
            return
        out = r[1]
        ref_r, ref_i = z128.real.astype(np.float32), z128.imag.astype(np.float32)
        same = ((out.real == ref_r) | (np.isnan(out.real) & np.isnan(ref_r))) & ((out.imag == ref_i) | (np.isnan(out.imag) & np.isnan(ref_i)))
        if out.dtype != np.complex64 or not same.all():
            k = int(np.flatnonzero(~same)[0]) if not same.all() else 0
            ctx.violation(what="complex128 -> complex64 differs from IEEE single rounding of each part", value=str(z128[k]), observed=str(out[k]),
                          required=f"({ref_r[k]}, {ref_i[k]})")
        r = outcome(convert_complex, np.complex128, out)
        if r[0] != "ok" or r[1].shape != out.shape:
            ctx.violation(what="complex64 -> complex128 failed or changed shape", observed=show(r)[:200], required="complex128, same shape")
            return
        back = r[1]
        same = ((back.real == out.real.astype(np.float64)) | np.isnan(back.real)) & ((back.imag == out.imag.astype(np.float64)) | np.isnan(back.imag))
        if back.dtype != np.complex128 or not same.all():
            ctx.violation(what="complex64 -> complex128 is not exact", observed=str(back[~same][:1]), required=str(out[~same][:1]))
        # exact rational check of the single rounding on values in the normal range
        for k in range(0, len(x), max(1, len(x) // (200 if ctx.quick else 5000))):
            v = float(x[k])
            if not math.isfinite(v) or v == 0 or not (1e-37 < abs(v) < 3e38):
                continue
            fr = Fraction(v)
            r = Fraction(float(out.real[k]))
            e = math.floor(math.log2(abs(fr)))
            while Fraction(2) ** e > abs(fr):
                e -= 1
            while Fraction(2) ** (e + 1) <= abs(fr):
                e += 1
            ulp = Fraction(2) ** (e - 23)
            if abs(r - fr) * 2 > ulp:
                ctx.violation(what="complex128 -> complex64 is further than half an ulp from the exact value", value=repr(v), observed=repr(float(out.real[k])),
                              required="nearest binary32 value")
                break
        ctx.evaluations += 2 * len(x)
        ctx.case(("c64<->c128",), nontrivial=True)
        # ---- (4) shapes and layouts ----------------------------------------------------------------------------------
        DTS = [np.dtype(np.complex64), np.dtype(np.complex128), CI]

        def make(dt, shape):
            n = int(np.prod(shape)) if len(shape) else 1
            re = np.array([rng.randint(-32768, 32767) for _ in range(n)], np.int64).reshape(shape)
            im = np.array([rng.randint(-32768, 32767) for _ in range(n)], np.int64).reshape(shape)
            if dt == CI:
                return mk_ci(re.astype(np.int16), im.astype(np.int16))
            # fractions incl. values just below the next integer (a detour through a narrower float type would round them up)
            near = [1 - 2.0 ** -30, 1 - 2.0 ** -44] if np.dtype(dt) == np.complex128 else [1 - 2.0 ** -8]
            frac = np.array([rng.choice([0.0, 0.25, 0.5, 0.75] + near) for _ in range(n)]).reshape(shape)
            return ((re + np.sign(re) * frac * (np.abs(re) < 32767)) + 1j * (im + np.sign(im) * frac * (np.abs(im) < 32767))).astype(dt)

        def parts(a):
            if a.dtype == CI:
                return a["real"].astype(np.float64), a["imag"].astype(np.float64)
            return np.asarray(a.real, np.float64), np.asarray(a.imag, np.float64)

        def expected(req, a):
            re, im = parts(a)
            if req == CI:
                return np.trunc(re), np.trunc(im)
            fd = np.float32 if req == np.dtype(np.complex64) else np.float64
            return re.astype(fd).astype(np.float64), im.astype(fd).astype(np.float64)

        shapes = [(), (1,), (5,), (0,), (3, 4), (4, 1), (2, 3, 4), (2, 0, 3), (3, 3, 3), (2, 3, 2, 2)]
        n_lay = 0
        for src in DTS:
            for req in DTS:
                for shape in shapes:
                    base = make(src, tuple(2 * k + 1 for k in shape) if shape else ())
                    views = {"C": make(src, shape)}
                    if len(shape) >= 1:
                        sl = tuple(slice(0, 2 * k, 2) for k in shape)
                        views["strided"] = base[sl]
                        views["reversed"] = make(src, shape)[tuple(slice(None, None, -1) for _ in shape)]
                    if len(shape) >= 2:
                        views["F"] = np.asfortranarray(make(src, shape))
                        views["transposed"] = make(src, shape[::-1]).T
                        views["column"] = make(src, shape + (3,))[..., 1]
                        views["broadcast"] = np.broadcast_to(make(src, shape[1:]), shape)
                    if len(shape) >= 3:
                        # every axis permutation of a dense block (cyclic ones are neither C- nor F-contiguous and not their own inverse)
                        import itertools as _it
                        for perm in _it.permutations(range(len(shape))):
                            if perm != tuple(range(len(shape))):
                                inv = tuple(perm.index(i) for i in range(len(shape)))
                                views["permuted" + "".join(map(str, perm))] = make(src, tuple(shape[i] for i in inv)).transpose(perm)
                        views["moveaxis"] = np.moveaxis(make(src, shape[1:] + shape[:1]), -1, 0)
                    if shape == ():
                        views["scalar"] = make(src, ())[()]
                    for lay, v in views.items():
                        r = outcome(convert_complex, req, v)
                        n_lay += 1
                        ctx.count("layout", lay)
                        ctx.count("pair", f"{dt_name(src)}->{dt_name(req)}")
                        if r[0] != "ok":
                            ctx.violation(what="conversion of a supported dtype pair raised", source=dt_name(src), requested=dt_name(req), shape=str(shape),
                                          layout=lay, observed=show(r)[:200], required="element-wise conversion with the shape preserved")
                            break
                        o = r[1]
                        er, ei = expected(req, np.asarray(v))
                        gr, gi = parts(np.asarray(o))
                        if np.dtype(o.dtype) != req or np.shape(o) != np.shape(v) or not (np.array_equal(gr, er) and np.array_equal(gi, ei)):
                            ctx.violation(what="conversion is not element-wise / shape-preserving", source=dt_name(src), requested=dt_name(req),
                                          shape=str(shape), layout=lay, observed=f"{o.dtype} {np.shape(o)} {np.asarray(o).ravel()[:4]}",
                                          required=f"{req} {np.shape(v)} {er.ravel()[:4]} {ei.ravel()[:4]}")
                            break
                        if src == req and not np.array_equal(np.asarray(o), np.asarray(v)):
                            ctx.violation(what="same-dtype request changed the values", observed=str(o), required=str(v))
                        # a dtype is what it describes, not which Python object describes it: the same call with an equal dtype
                        # spelled another way (type object, string, equivalent field list, a dtype that went through pickle) and
                        # with the array re-typed by an equal dtype object gives the same result
                        for how_req, req2 in alias_dtypes(req):
                            for how_arr, v2 in alias_arrays(v):
                                if how_req == "same" and how_arr == "same":
                                    continue
                                if (n_lay + len(how_req) + len(how_arr)) % (3 if ctx.quick else 1):
                                    continue          # quick tier: a third of the combinations
                                r2 = outcome(convert_complex, req2, v2)
                                ctx.count("dtype-spelling", how_req + "/" + how_arr)
                                if r2[0] != "ok" or np.dtype(r2[1].dtype) != req or np.shape(r2[1]) != np.shape(o) or \
                                        np.asarray(r2[1]).tobytes() != np.ascontiguousarray(o).tobytes():
                                    ctx.violation(what="result depends on which object spells the dtype", source=dt_name(src), requested=dt_name(req),
                                                  requested_as=how_req, array_dtype_as=how_arr, shape=str(shape), layout=lay,
                                                  observed=(show(r2)[:200] if r2[0] != "ok" else f"{r2[1].dtype} {np.asarray(r2[1]).ravel()[:4]}"),
                                                  required=f"{req} {np.asarray(o).ravel()[:4]}")
                                    break
                        if np.asarray(v).size <= 12:
                            lines.append(f"cconv {dt_name(req)} {dt_name(src)} {shape_txt(np.shape(v))} {enc_arr(v)}")
                            expect.append(f"ok {dt_name(req)} {shape_txt(np.shape(o))} {enc_arr(o)}")
                    ctx.case(("layouts", dt_name(src), dt_name(req), shape), nontrivial=True)
        ctx.evaluations += n_lay
        # ---- (5) unsupported dtypes ----------------------------------------------------------------------------------
        a = make(CI, (3,))
        for bad in (np.float64, np.float32, np.int16, np.int32, "U3", np.bool_, np.clongdouble, np.dtype([("real", np.int32), ("imag", np.int32)]),
                    np.dtype([("re", np.int16), ("im", np.int16)]), object, np.dtype("V4"), np.dtype("V8"), np.dtype("V16"), np.void, "V2",
                    np.dtype("i2,i2"), np.dtype([("real", ">i2"), ("imag", ">i2")]), np.dtype([("real", "<i2"), ("imag", "<i2"), ("pad", "u1")]), "S4",
                    np.datetime64, np.uint32):
            # ... also when the value already HAS that unsupported dtype (a same-dtype request is not a licence to skip the check)
            same = []
            try:
                bd = np.dtype(bad)
                if bd != np.dtype(object):
                    same = [np.zeros(3, bd), np.zeros((), bd), np.zeros(2, bd)[0]]
            except TypeError:
                pass
            for v2 in same:
                r2 = outcome(convert_complex, bad, v2)
                ctx.case(("unsupported-same-dtype", str(bad), type(v2).__name__))
                if not (r2[0] == "err" and r2[1] == "TypeError"):
                    ctx.violation(what="unsupported requested dtype not refused with TypeError (value of that same dtype)", requested=str(bad),
                                  value=type(v2).__name__, observed=show(r2)[:200], required="TypeError")
            for v in (a, make(np.dtype(np.complex64), (2,)), make(np.dtype(np.complex128), ())):
                r = outcome(convert_complex, bad, v)
                ctx.case(("unsupported", str(bad)))
                if not (r[0] == "err" and r[1] == "TypeError"):
                    ctx.violation(what="unsupported requested dtype not refused with TypeError", requested=str(bad), observed=show(r)[:200], required="TypeError")
                nm = np.dtype(bad).name if not isinstance(bad, np.dtype) or bad.names is None else "struct"
                lines.append(f"cconv {nm} {dt_name(v.dtype)} {shape_txt(np.shape(v))} {enc_arr(v)}")
                expect.append("err TypeError")
        # other source dtypes: astype for complex targets, TypeError for the ComplexInt32 target
        for v in (np.array([1, -2, 3], np.int32), np.array([0.5, -1.25], np.float64)):
            for req in DTS:
                r = outcome(convert_complex, req, v)
                lines.append(f"cconv {dt_name(req)} {v.dtype.name} {shape_txt(v.shape)} {enc_arr(v)}")
                expect.append(f"ok {dt_name(req)} {shape_txt(r[1].shape)} {enc_arr(r[1])}" if r[0] == "ok" else "err " + r[1])
        # ---- (6) seeded small arrays through the model ----------------------------------------------------------------
        for _ in range(150 if ctx.quick else 3000):
            src, req = rng.choice(DTS), rng.choice(DTS)
            shape = rng.choice([(), (1,), (3,), (2, 2), (1, 2, 2)])
            v = make(src, shape)
            if src != CI and rng.random() < 0.3:
                # values needing rounding in single precision (normal range)
                v = (v * rng.choice([1.0, 1 / 3, 1e-3, 1.0000001])).astype(src) if req != CI else v
            r = outcome(convert_complex, req, v)
            lines.append(f"cconv {dt_name(req)} {dt_name(src)} {shape_txt(np.shape(v))} {enc_arr(v)}")
            expect.append(f"ok {dt_name(req)} {shape_txt(np.shape(r[1]))} {enc_arr(r[1])}" if r[0] == "ok" else "err " + r[1])
    # every request also goes through the generated convert_complex (Gen/ComplexConvert.lean, T25)
    glines = ["gconv" + q[len("cconv"):] for q in lines if q.startswith("cconv ")]
    gexpect = [e for q, e in zip(lines, expect) if q.startswith("cconv ")]
    gres = ctx.model(glines, driver="drivers/ComplexConvert.lean")
    if gres is not None:
        for q, want, got in zip(glines, gexpect, gres):
            if got != want:
                ctx.mismatch(stream="generated convert_complex", request=q[:300], model_says=got[:300], code_says=want[:300])
                break
    ctx.extra["generated_lines_compared"] = len(glines)
    ctx.evaluations += len(glines)
    res = ctx.model(lines)
    if res is not None:
        for q, want, got in zip(lines, expect, res):
            if got != want:
                ctx.mismatch(stream="complex " + q.split()[0], request=q[:300], model_says=got[:300], code_says=want[:300])
                break
    ctx.extra["model_lines_compared"] = len(lines)
    ctx.evaluations += len(lines)
    for q, e in list(zip(lines, expect))[:2000:200]:
        ctx.sample({"request": q[:140], "response": e[:140]})


def replay(doc):
    print(doc.get("input"))
    return 0
