"""C20 — A Timing object holds exactly the members its mode allows, and never changes."""
from __future__ import annotations

import datetime as dt
import itertools

from props.common import outcome, show, norm_model

PID = "C20"
LEAN_MODULE = "NiVerif.Props.C20"
NAMESPACE = "Props.C20"
DRIVER = "drivers/C20.lean"
GEN_MODULES = ["TimingArgs", "Irregular"]
EXTRA_LEAN_MODULES = ["NiVerif.Props.C20b"]
THEOREMS = ["unsupported_ok", "ctor_accepts_iff_allowed", "ctor_error_class", "ctor_stores", "has_flags_exact",
            "absent_member_RuntimeError", "empty_has_nothing", "eq_iff_members", "named_ctors_agree",
            "gen_unsupported_eq_model", "gen_strategy_table", "gen_ctor_eq_model", "gen_validators_accept_iff", "gen_accessors_eq_model",
            "gen_named_ctors_eq_model", "gen_eq_compares_all_members", "gen_reduce_is_ctor_args"]
RULE = ("the whole matrix: 4 modes (NONE, REGULAR, IRREGULAR, unknown) x 13 argument kinds for each of "
        "(timestamp, time_offset, sample_interval, timestamps) = 4 x 13^4 constructor calls on the real class, each "
        "compared with the Lean model's verdict (accepted members / error class) and with the property's table; "
        "plus family mixtures, named constructors, attribute protection, equality; non-trivial = not all-absent")
TRUSTED = ["hand model NiVerif/Model/Timing.lean of Timing.__init__ (exhaustively compared on the argument-kind matrix); its validation "
           "part is PROVED equal to the validators regenerated from the source (Gen/TimingArgs, theorem gen_ctor_eq_model); the abstraction "
           "of Python objects to argument kinds (isinstance over the three time families, Sequence, None) is the translator's; Python "
           "attribute protection (slots/properties) is observed, not modelled"]
ASSUMPTIONS = ["one representative value per argument kind (plus seeded mixtures); validation only inspects types, "
               "sequence-ness and monotonicity"]

KINDS = ["A", "Dd", "Dh", "Db", "Td", "Th", "Tb", "Se", "Sm", "Sd", "Sn", "Sb", "O"]


def values():
    import hightime as ht
    import nitypes.bintime as bt
    u = dt.timezone.utc
    d0 = dt.datetime(2024, 1, 1, tzinfo=u)
    h0 = ht.datetime(2024, 1, 1, tzinfo=u)
    b0 = bt.DateTime(2024, 1, 1, tzinfo=u)
    sec = dt.timedelta(seconds=1)
    return {
        "A": None, "Dd": d0, "Dh": h0, "Db": b0,
        "Td": dt.timedelta(seconds=3), "Th": ht.timedelta(seconds=3), "Tb": bt.TimeDelta(3),
        "Se": [], "Sm": [d0, d0 + sec, d0 + sec, d0 + 7 * sec],
        "Sd": (h0 + 9 * sec, h0 + 4 * sec, h0 + 4 * sec),
        "Sn": [b0 + bt.TimeDelta(1), b0 + bt.TimeDelta(3), b0 + bt.TimeDelta(2)],
        "Sb": [d0, 5], "O": 12345,
    }


def allowed(mode, a, b, c, d):
    """The property's table, written from its text."""
    isD = lambda k: k[0] == "D"
    isT = lambda k: k[0] == "T"
    if mode == "NONE":
        return (a == "A" or isD(a)) and (b == "A" or isT(b)) and c == "A" and d == "A"
    if mode == "REGULAR":
        return (a == "A" or isD(a)) and (b == "A" or isT(b)) and isT(c) and d == "A"
    if mode == "IRREGULAR":
        return a == "A" and b == "A" and c == "A" and d in ("Se", "Sm", "Sd")
    return False


def run(ctx):
    from nitypes.waveform import SampleIntervalMode, Timing
    V = values()
    modes = {"NONE": SampleIntervalMode.NONE, "REGULAR": SampleIntervalMode.REGULAR,
             "IRREGULAR": SampleIntervalMode.IRREGULAR, "UNKNOWN": "bogus-mode"}
    reqs = []
    for mname, mode in modes.items():
        for a, b, c, d in itertools.product(KINDS, repeat=4):
            o = outcome(Timing, mode, V[a], V[b], V[c], V[d])
            ok = allowed(mname, a, b, c, d)
            if o[0] == "ok":
                t = o[1]
                if not ok:
                    ctx.violation(mode=mname, args=[a, b, c, d], observed="accepted", required="ValueError/TypeError")
                    continue
                flags = (t.has_timestamp, t.has_start_time, t.has_time_offset, t.has_sample_interval)
                want = (a != "A", a != "A", b != "A", c != "A")
                if flags != want or t.sample_interval_mode is not mode:
                    ctx.violation(mode=mname, args=[a, b, c, d], observed=str(flags), required=str(want))
                for name, kind in (("timestamp", a), ("time_offset", b), ("sample_interval", c)):
                    r = outcome(getattr, t, name)
                    if kind == "A":
                        if r[:2] != ("err", "RuntimeError"):
                            ctx.violation(mode=mname, args=[a, b, c, d], observed=f"{name}: {show(r)}", required="RuntimeError")
                    elif r[0] != "ok" or r[1] is not V[kind]:
                        ctx.violation(mode=mname, args=[a, b, c, d], observed=f"{name}: {show(r)}", required="the given member")
                if a != "A" and b == "A" and t.start_time is not V[a]:
                    ctx.violation(mode=mname, args=[a, b, c, d], observed="start_time", required="timestamp")
                n = "-" if t._timestamps is None else str(len(t._timestamps))
                if t._timestamps is not None and (list(t._timestamps) != list(V[d]) or t._timestamps is V[d]):
                    ctx.violation(mode=mname, args=[a, b, c, d], observed="timestamps not copied / differ", required="a copy of the sequence")
                b_ = lambda x: "1" if x else "0"
                text = f"ok {mname} ts={b_(flags[0])} st={b_(flags[1])} off={b_(flags[2])} si={b_(flags[3])} n={n}"
            else:
                if ok or o[1] not in ("TypeError", "ValueError"):
                    ctx.violation(mode=mname, args=[a, b, c, d], observed=show(o),
                                  required="accepted" if ok else "ValueError/TypeError")
                text = "err " + o[1]
            # the same call with copy_timestamps=False (the sequence is taken over instead of copied): the same verdict
            if isinstance(V[d], (list, tuple)):
                o3 = outcome(lambda: Timing(mode, V[a], V[b], V[c], list(V[d]) if isinstance(V[d], list) else V[d], copy_timestamps=False))
                if (o3[0] == "ok") != (o[0] == "ok") or (o3[0] == "err" and o3[1] != o[1]):
                    ctx.violation(mode=mname, args=[a, b, c, d], copy_timestamps=False, observed=show(o3)[:160], required=show(o)[:160] + " (as with copy_timestamps=True)")
            reqs.append((f"timing ctor {mname} {a} {b} {c} {d}", text))
            ctx.case((mname, a, b, c, d), nontrivial=(a, b, c, d) != ("A", "A", "A", "A"))
            ctx.count("outcome", text.split()[0] if text.startswith("ok") else text.split()[1])
            ctx.count("mode", mname)
    # anything that is not a SampleIntervalMode member is an unknown mode, also objects that merely equal a member's value
    # or name: with every member combination some real mode would accept, and with none
    class Eq:
        def __init__(self, v): self.v = v
        def __eq__(self, o): return getattr(o, "value", o) == self.v
        def __hash__(self): return hash(self.v)
    import enum
    from nitypes.waveform import DigitalState

    class Lookalike(enum.Enum):
        NONE = SampleIntervalMode.NONE.value
        REGULAR = SampleIntervalMode.REGULAR.value
        IRREGULAR = SampleIntervalMode.IRREGULAR.value

    class LookalikeInt(enum.IntEnum):
        NONE = SampleIntervalMode.NONE.value
        REGULAR = SampleIntervalMode.REGULAR.value
        IRREGULAR = SampleIntervalMode.IRREGULAR.value
        LAST = -1

    class HasValue:
        def __init__(self, v): self.value = v
    unknown = [0, 1, 2, 3, -1, 1.0, True, False, "NONE", "REGULAR", "IRREGULAR", "regular", None, [], (), SampleIntervalMode, Eq(1), Eq(2), b"\x01",
               Lookalike.NONE, Lookalike.REGULAR, Lookalike.IRREGULAR, LookalikeInt.NONE, LookalikeInt.REGULAR, LookalikeInt.IRREGULAR, LookalikeInt.LAST,
               DigitalState.FORCE_DOWN, DigitalState.FORCE_UP, DigitalState.FORCE_OFF, HasValue(0), HasValue(1), HasValue(2), HasValue(-1), HasValue(True)]
    combos = [("A", "A", "A", "A"), ("Dd", "Td", "A", "A"), ("A", "A", "Td", "A"), ("Db", "Tb", "Tb", "A"), ("A", "A", "A", "Sm"),
              ("A", "A", "A", "Se"), ("Dh", "A", "Th", "A")]
    for mode in unknown:
        for a, b, c, d in combos:
            o = outcome(Timing, mode, V[a], V[b], V[c], V[d])
            ctx.case(("unknown-mode", repr(mode)[:30], a, b, c, d))
            if not (o[0] == "err" and o[1] in ("ValueError", "TypeError")):
                ctx.violation(mode=repr(mode)[:60], args=[a, b, c, d], observed=show(o)[:200], required="ValueError/TypeError (unknown mode)")
    # members that are not time values but compare equal to one and hash alike (NumPy's datetime64 / timedelta64, an impostor object):
    # first the genuine value is used (whatever that leaves behind in the process), then the look-alike in the same place - every
    # constructor refuses it as it refuses any other object
    import numpy as _np

    class Impostor:
        def __init__(self, v): self.v = v
        def __eq__(self, o): return o == self.v if not isinstance(o, Impostor) else self.v == o.v
        def __hash__(self): return hash(self.v)
        def __repr__(self): return f"Impostor({self.v!r})"
    sec, stamp = dt.timedelta(seconds=1), dt.datetime(2025, 1, 1)
    stamp_utc = dt.datetime(2025, 1, 1, tzinfo=dt.timezone.utc)
    alike = {"interval": [(sec, _np.timedelta64(1, "s")), (sec, Impostor(sec)), (dt.timedelta(0), _np.timedelta64(0, "s")), (dt.timedelta(0), 0), (dt.timedelta(0), Impostor(dt.timedelta(0)))],
             "stamp": [(stamp, _np.datetime64("2025-01-01T00:00:00")), (stamp, Impostor(stamp)), (stamp_utc, Impostor(stamp_utc))]}
    makers = [("create_with_regular_interval(interval)", "interval", lambda v: Timing.create_with_regular_interval(v)),
              ("create_with_regular_interval(interval, timestamp)", "stamp", lambda v: Timing.create_with_regular_interval(sec, v)),
              ("create_with_regular_interval(interval, timestamp, offset)", "interval", lambda v: Timing.create_with_regular_interval(sec, stamp_utc, v)),
              ("create_with_no_interval(timestamp)", "stamp", lambda v: Timing.create_with_no_interval(v)),
              ("create_with_no_interval(timestamp, offset)", "interval", lambda v: Timing.create_with_no_interval(stamp_utc, v)),
              ("create_with_irregular_interval([timestamp])", "stamp", lambda v: Timing.create_with_irregular_interval([v])),
              ("Timing(REGULAR, sample_interval=)", "interval", lambda v: Timing(SampleIntervalMode.REGULAR, sample_interval=v)),
              ("Timing(NONE, timestamp=)", "stamp", lambda v: Timing(SampleIntervalMode.NONE, timestamp=v))]
    for label, slot, mk in makers:
        for genuine, fake in alike[slot]:
            for warm in (True, False):
                if warm:
                    g = outcome(mk, genuine)
                    if g[0] != "ok":
                        ctx.violation(what="a genuine member was refused", constructor=label, value=repr(genuine), observed=show(g)[:120], required="a Timing")
                        continue
                o = outcome(mk, fake)
                ctx.case(("look-alike member", label, repr(fake)[:40], warm))
                if not (o[0] == "err" and o[1] in ("TypeError", "ValueError")):
                    ctx.violation(what="a member that only LOOKS like a time value (equal to one, same hash) was accepted", constructor=label, member=repr(fake)[:60],
                                  after_the_genuine_value_was_used=warm, observed=show(o)[:160], required="TypeError")
    # the verdict depends on the kinds of the members only, never on their values: the same matrix with other
    # representatives - bintime instants outside the years 1..9999 (valid 128-bit timestamps whose text form does not
    # exist), extreme timedeltas, objects that cannot be printed, long sequences
    import nitypes.bintime as bt
    import hightime as ht

    class Hostile:
        def __repr__(self): raise OverflowError("no text form")
        __str__ = __repr__
    far = bt.DateTime.from_ticks(((1 << 63) - 1) << 64)
    far2 = bt.DateTime.from_ticks(-(1 << 127))
    V2 = dict(V)
    V2.update({"Db": far, "Tb": bt.TimeDelta.from_ticks((1 << 127) - 1), "Td": dt.timedelta.max, "Th": ht.timedelta.min,
               "Dd": dt.datetime.max.replace(tzinfo=dt.timezone.utc), "Dh": ht.datetime.min.replace(tzinfo=dt.timezone.utc),
               "Sm": [far2, far2, far], "Sd": (far, far2), "Sn": [far2, far, far2], "Sb": [far, "x"], "O": Hostile(),
               "Se": ()})
    cells = list(itertools.product(modes.items(), itertools.product(KINDS, repeat=4)))
    if ctx.quick:
        cells = ctx.rng.sample(cells, 12000)
    for (mname, mode), (a, b, c, d) in cells:
        o = outcome(Timing, mode, V2[a], V2[b], V2[c], V2[d])
        ok = allowed(mname, a, b, c, d)
        if ok != (o[0] == "ok") or (o[0] == "err" and o[1] not in ("TypeError", "ValueError")):
            ctx.violation(mode=mname, args=[a, b, c, d], values="extreme representatives (far bintime instants, unprintable objects)",
                          observed=show(o)[:200], required="accepted" if ok else "ValueError/TypeError")
        elif o[0] == "ok":
            t = o[1]
            flags = (t.has_timestamp, t.has_start_time, t.has_time_offset, t.has_sample_interval)
            if flags != (a != "A", a != "A", b != "A", c != "A"):
                ctx.violation(mode=mname, args=[a, b, c, d], values="extreme representatives", observed=str(flags), required="has_* = given members")
        ctx.case(("extreme", mname, a, b, c, d), nontrivial=(a, b, c, d) != ("A", "A", "A", "A"))
        ctx.count("extreme-outcome", "ok" if o[0] == "ok" else o[1])
    # ... and with instances of user subclasses of the six time classes (what pandas.Timestamp, freezegun, pendulum values are): they ARE
    # datetimes / timedeltas of their family
    u_ = dt.timezone.utc
    class SubDd(dt.datetime): pass
    class SubDh(ht.datetime): pass
    class SubDb(bt.DateTime): pass
    class SubTd(dt.timedelta): pass
    class SubTh(ht.timedelta): pass
    class SubTb(bt.TimeDelta): pass
    sd, sh, sb = SubDd(2024, 1, 1, tzinfo=u_), SubDh(2024, 1, 1, tzinfo=u_), SubDb(2024, 1, 1, tzinfo=u_)
    V3 = dict(V)
    V3.update({"Dd": sd, "Dh": sh, "Db": sb, "Td": SubTd(seconds=3), "Th": SubTh(seconds=3), "Tb": SubTb(3),
               "Sm": [sd, V["Dd"] + dt.timedelta(seconds=1), SubDd(2024, 1, 2, tzinfo=u_)], "Sd": (SubDh(2024, 1, 3, tzinfo=u_), sh, sh),
               "Sn": [SubDb(2024, 1, 2, tzinfo=u_), sb, SubDb(2024, 1, 3, tzinfo=u_)], "Sb": [sd, 5]})
    cells3 = list(itertools.product(modes.items(), itertools.product(KINDS, repeat=4)))
    if ctx.quick:
        cells3 = [c_ for c_ in cells3 if allowed(c_[0][0], *c_[1])] + ctx.rng.sample(cells3, 3000)
    for (mname, mode), (a, b, c, d) in cells3:
        o = outcome(Timing, mode, V3[a], V3[b], V3[c], V3[d])
        ok = allowed(mname, a, b, c, d)
        if ok != (o[0] == "ok") or (o[0] == "err" and o[1] not in ("TypeError", "ValueError")):
            ctx.violation(mode=mname, args=[a, b, c, d], values="instances of user subclasses of the time classes", observed=show(o)[:200], required="accepted" if ok else "ValueError/TypeError")
        ctx.case(("subclass", mname, a, b, c, d), nontrivial=(a, b, c, d) != ("A", "A", "A", "A"))
    for label, mk in (("create_with_irregular_interval", lambda: Timing.create_with_irregular_interval(V3["Sm"])), ("create_with_regular_interval", lambda: Timing.create_with_regular_interval(V3["Td"], sd, V3["Th"])),
                      ("create_with_no_interval", lambda: Timing.create_with_no_interval(sb, V3["Tb"]))):
        o = outcome(mk)
        if o[0] != "ok":
            ctx.violation(what="a named constructor refuses instances of subclasses of the time classes", constructor=label, observed=show(o)[:160], required="a Timing")
    # a Timing never changes after creation - also not when the waveform holding it is a SOURCE of an append (receivers with no timestamps
    # yet hand the first source's object on): the scenario generator is C10's
    from props import c10 as _c10
    ctx.extra["timing_objects_of_append_sources"] = _c10.empty_irregular_receiver_cases(ctx, lambda v: ctx.violation(**dict(v, what="a Timing object changed after its creation (it was held by a source of an append)")))
    res = ctx.model([q for q, _ in reqs])
    if res is not None:
        for (q, want), got in zip(reqs, res):
            if norm_model(got) != want:
                ctx.mismatch(stream="timing-ctor-matrix", request=q, model_says=got, code_says=want)
    ctx.exhaustive = True
    ctx.extra["matrix_cells"] = len(reqs)
    # ---- named constructors, empty, equality, immutability -------------------------------------------
    e = Timing.empty
    if (e.sample_interval_mode is not SampleIntervalMode.NONE or e.has_timestamp or e.has_start_time
            or e.has_time_offset or e.has_sample_interval or e._timestamps is not None):
        ctx.violation(what="Timing.empty", observed=repr(e), required="no members")
    for a, b in itertools.product(["A", "Dd", "Dh", "Db", "O"], ["A", "Td", "Tb", "O"]):
        x, y = outcome(Timing.create_with_no_interval, V[a], V[b]), outcome(Timing, SampleIntervalMode.NONE, V[a], V[b])
        if (x[0], x[1] if x[0] == "err" else None) != (y[0], y[1] if y[0] == "err" else None) or (x[0] == "ok" and x[1] != y[1]):
            ctx.violation(what="create_with_no_interval", args=[a, b], observed=show(x), required=show(y))
        for c in ["A", "Td", "Th", "O"]:
            x = outcome(Timing.create_with_regular_interval, V[c], V[a], V[b])
            y = outcome(Timing, SampleIntervalMode.REGULAR, V[a], V[b], V[c])
            if x[0] != y[0] or (x[0] == "ok" and x[1] != y[1]) or (x[0] == "err" and x[1] != y[1]):
                ctx.violation(what="create_with_regular_interval", args=[c, a, b], observed=show(x), required=show(y))
        ctx.case(("named", a, b))
    for d in KINDS:
        x = outcome(Timing.create_with_irregular_interval, V[d])
        y = outcome(Timing, SampleIntervalMode.IRREGULAR, None, None, None, V[d])
        if x[0] != y[0] or (x[0] == "ok" and x[1] != y[1]) or (x[0] == "err" and x[1] != y[1]):
            ctx.violation(what="create_with_irregular_interval", args=[d], observed=show(x), required=show(y))
    # Timing objects that were not built by a constructor call of the user but handed out by the library (the timing of a waveform
    # after appends, conversions to another family, copies): the same rules - has_* say which members exist, absent members raise
    # RuntimeError, == a directly constructed Timing with the same members
    import copy as _copy
    import pickle as _pickle
    import numpy as np
    from nitypes.waveform import AnalogWaveform, DigitalWaveform
    d0, sec = V["Dd"], dt.timedelta(seconds=1)
    def irr(n, t0=0):
        return Timing.create_with_irregular_interval([d0 + (t0 + k) * sec for k in range(n)])
    derived = []
    for mkw in (lambda n, t: AnalogWaveform.from_array_1d(np.zeros(n), np.float64, timing=t), lambda n, t: DigitalWaveform.from_lines(np.zeros((n, 1), np.uint8), timing=t)):
        w = mkw(2, irr(2)); w.append(np.zeros(2) if isinstance(w, AnalogWaveform) else np.zeros((2, 1), np.uint8), [d0 + 5 * sec, d0 + 6 * sec])
        derived.append(("append(array, timestamps)", w.timing, Timing.create_with_irregular_interval([d0, d0 + sec, d0 + 5 * sec, d0 + 6 * sec])))
        w = mkw(2, irr(2)); w.append(mkw(2, irr(2, 7)))
        derived.append(("append(waveform)", w.timing, Timing.create_with_irregular_interval([d0, d0 + sec, d0 + 7 * sec, d0 + 8 * sec])))
        w = mkw(2, irr(2)); w.append([mkw(1, irr(1, 3)), mkw(2, irr(2, 7))])
        derived.append(("append([waveforms])", w.timing, Timing.create_with_irregular_interval([d0, d0 + sec, d0 + 3 * sec, d0 + 7 * sec, d0 + 8 * sec])))
        w = mkw(0, irr(0)); w.append(mkw(2, irr(2, 7)))
        derived.append(("append onto empty", w.timing, irr(2, 7)))
        reg = Timing.create_with_regular_interval(sec, d0, sec)
        w = mkw(2, reg); w.append(mkw(1, Timing.create_with_regular_interval(sec)))
        derived.append(("regular receiver after append", w.timing, reg))
        w = mkw(2, reg); w.sample_count = 1
        derived.append(("after sample_count", w.timing, reg))
    for t in (Timing.create_with_regular_interval(sec, d0, sec), Timing.create_with_no_interval(d0), irr(3), Timing.empty):
        derived += [("copy", _copy.copy(t), t), ("deepcopy", _copy.deepcopy(t), t), ("pickle", _pickle.loads(_pickle.dumps(t)), t),
                    ("to_datetime", t.to_datetime(), t), ("to_hightime().to_datetime()", t.to_hightime().to_datetime(), t)]
    for label, got, twin in derived:
        ctx.case(("derived-timing", label, twin.sample_interval_mode.name))
        obs = lambda t: outcome(lambda: (t.sample_interval_mode, t.has_timestamp, t.has_start_time, t.has_time_offset, t.has_sample_interval,
                                         [outcome(getattr, t, n)[:2] if outcome(getattr, t, n)[0] == "err" else ("ok", outcome(getattr, t, n)[1])
                                          for n in ("timestamp", "time_offset", "sample_interval", "start_time")]))
        a, b = obs(got), obs(twin)
        eq = outcome(lambda: (got == twin, twin == got, got != twin))
        if a != b or eq != ("ok", (True, True, False)):
            ctx.violation(what="a Timing handed out by the library does not behave like the Timing with the same members", how=label,
                          observed=f"{show(a)[:200]} ==:{show(eq)[:60]}", required=f"{show(b)[:200]} ==:(True, True, False)")
    # equality: equal iff modes and all members equal
    objs = []
    for mname in ("NONE", "REGULAR", "IRREGULAR"):
        for a, b, c, d in itertools.product(["A", "Dd", "Db"], ["A", "Td"], ["A", "Td", "Th"], ["A", "Se", "Sm", "Sd"]):
            if allowed(mname, a, b, c, d):
                objs.append(((mname, a, b, c, d), Timing(modes[mname], V[a], V[b], V[c], V[d])))
                objs.append(((mname, a, b, c, d), Timing(modes[mname], V[a], V[b], V[c], V[d])))
    for (k1, t1), (k2, t2) in itertools.product(objs, repeat=2):
        # members of different families can still be equal values (e.g. Td vs Th both 3 s)
        same = k1[0] == k2[0] and all(V[x] == V[y] for x, y in zip(k1[1:], k2[1:]))
        if (t1 == t2) is not same:
            ctx.violation(what="==", args=[k1, k2], observed=(t1 == t2), required=same)
    ctx.extra["equality_pairs"] = len(objs) ** 2
    t = Timing.create_with_regular_interval(V["Td"], V["Dd"], V["Td"])
    for name in ("timestamp", "time_offset", "sample_interval", "sample_interval_mode", "has_timestamp",
                 "has_time_offset", "has_sample_interval", "has_start_time", "start_time"):
        o = outcome(setattr, t, name, None)
        if o[:2] != ("err", "AttributeError"):
            ctx.violation(what="setattr", name=name, observed=show(o), required="AttributeError")
        o = outcome(delattr, t, name)
        if o[:2] != ("err", "AttributeError"):
            ctx.violation(what="delattr", name=name, observed=show(o), required="AttributeError")
    for q, w in reqs[1000:1000 + 6 * 3000:3000]:
        ctx.sample({"request": q, "response": w})


def replay(doc):
    print(doc.get("input"))
    return 0
