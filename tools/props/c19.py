"""C19 — Units mirror the extended properties; Scalar ordering and XYData pairing hold."""
from __future__ import annotations

import copy
import math
import operator
import pickle

import numpy as np

from props.common import outcome, show

PID = "C19"
LEAN_MODULE = "NiVerif.Props.C19"
NAMESPACE = "Props.C19"
DRIVER = "drivers/C19.lean"
GEN_MODULES = ["Scalar", "Units"]
EXTRA_LEAN_MODULES = ["NiVerif.Model.Units"]
THEOREMS = ["get_set_same", "get_set_other", "get_erase_same", "get_erase_other", "run_lastWrite", "units_two_views",
            "attr_write_visible_in_dict", "dict_write_visible_in_attr", "dict_delete_gives_empty",
            "nonstr_setter_TypeError", "nonstr_units_TypeError", "ctor_absent", "ctor_conflict_iff", "ctor_ok_units",
            "ctor_errors", "order_units_differ", "order_same_units", "order_ok_iff", "order_error_class", "order_swap",
            "strLt_irrefl", "strLt_trichotomy", "strLt_trans", "num_trichotomy", "nan_compares_false",
            "scalar_eq_spec", "scalar_eq_kinds", "scalar_eq_units", "scalar_eq_str", "le_iff_lt_or_eq",
            "xy_accepts_iff", "xy_refusal_class", "xy_refusal_table", "from1d_accepts_iff", "from1d_refusal_class",
            "arrEq_iff", "xy_eq_spec", "gen_scalar_order_eq_model", "gen_scalar_eq_eq_model",
            "gen_Scalar_units_get", "gen_Scalar_units_set", "gen_Vector_units_get", "gen_Vector_units_set", "gen_XYData_x_units_get", "gen_XYData_x_units_set", "gen_XYData_y_units_get", "gen_XYData_y_units_set", "gen_NumericWaveform_units_get", "gen_NumericWaveform_units_set", "gen_NumericWaveform_channel_name_get", "gen_NumericWaveform_channel_name_set", "gen_Spectrum_units_get", "gen_Spectrum_units_set", "gen_Spectrum_channel_name_get", "gen_Spectrum_channel_name_set", "gen_DigitalWaveform_channel_name_get", "gen_DigitalWaveform_channel_name_set", "gen_Scalar_ctor_units", "gen_Vector_ctor_units", "gen_XYData_ctor_x_units", "gen_XYData_ctor_y_units", "gen_keys",
            "erase_set_absent", "del_set_absent", "ctorUnits_default", "erase_set_comm", "gen_Scalar_pickle_props", "gen_Vector_pickle_props", "gen_XYData_pickle_props"]
RULE = ("(1) seeded write histories (attribute setter with str and non-str values, dictionary item assignment and deletion, "
        "pickle / deepcopy) on Scalar, Vector, XYData, AnalogWaveform, ComplexWaveform, Spectrum and DigitalWaveform: after "
        "every step each units / x_units / y_units / channel_name attribute is compared with the dictionary entry (oracle) "
        "and the whole history is replayed through Model/Units.lean; (2) the constructor rule over units argument x "
        "dictionary entry x copy flag for Scalar, Vector and XYData; (3) every ordered pair of a value pool (bool, int, "
        "float incl. 2^53 neighbours, nan, +-inf, -0.0, str incl. empty / non-ASCII / shared prefixes) x units "
        "same/different x {<, <=, >, >=, ==, !=} against the rule of the property and the model, plus seeded random "
        "values; rejected value types; (4) XYData(x, y) and from_arrays_1d over argument classes (kind x dimensionality "
        "x length x dtype) and XYData equality on seeded pairs")
TRUSTED = ["hand model NiVerif/Model/Units.lean (dictionary, attribute get/set, constructor rule, Scalar comparison over "
           "exact rationals and code-point strings, XYData / from_arrays_1d validation order) compared with the real "
           "classes case by case; the class test of the comparison operators (other is a Scalar) is exercised by the "
           "oracle only"]
ASSUMPTIONS = ["units written through the dictionary are str (a non-str entry makes the attribute's own assertion fail; "
               "compared with the model, not judged by the oracle)",
               "XYData equality across dtypes is judged by Python's exact comparison of the values (tolist)"]

UD, CN, UDX, UDY = "NI_UnitDescription", "NI_ChannelName", "NI_UnitDescription_X", "NI_UnitDescription_Y"


def enc_s(s):
    return "_" if s == "" else ".".join(str(ord(c)) for c in s)


NONSTR = {None: 0, 5: 5, 1.5: 15, b"V": 7}


def enc_p(v):
    if isinstance(v, str):
        return "s" + enc_s(v)
    return "o" + str(NONSTR[v])


def enc_num(v):
    if isinstance(v, bool):
        return f"i{int(v)}/1"
    if isinstance(v, int):
        return f"i{v}/1"
    if math.isnan(v):
        return "fnan"
    if math.isinf(v):
        return "finf" if v > 0 else "f-inf"
    n, d = v.as_integer_ratio()
    return f"f{n}/{d}"


def enc_v(v):
    return "s" + enc_s(v) if isinstance(v, str) else enc_num(v)


def make_objects():
    from nitypes.scalar import Scalar
    from nitypes.vector import Vector
    from nitypes.xy_data import XYData
    from nitypes.waveform import AnalogWaveform, ComplexWaveform, Spectrum, DigitalWaveform
    return {
        "Scalar": (lambda: Scalar(1.5), [("units", UD)]),
        "Vector": (lambda: Vector([1, 2, 3]), [("units", UD)]),
        "XYData": (lambda: XYData(np.array([1, 2], np.int32), np.array([3, 4], np.int32)), [("x_units", UDX), ("y_units", UDY)]),
        "AnalogWaveform": (lambda: AnalogWaveform(3), [("units", UD), ("channel_name", CN)]),
        "ComplexWaveform": (lambda: ComplexWaveform(3), [("units", UD), ("channel_name", CN)]),
        "Spectrum": (lambda: Spectrum(3), [("units", UD), ("channel_name", CN)]),
        "DigitalWaveform": (lambda: DigitalWaveform(3, 2), [("channel_name", CN)]),
    }


def dict_text(d):
    items = list(d.items())
    return "ok " + ("_" if not items else ";".join(enc_s(k) + "=" + enc_p(v) for k, v in items))


def run_histories(ctx, lines, expect):
    rng = ctx.rng
    objs = make_objects()
    STRS = ["", "V", "mV", "volts", "Ω", "m/s²", " V", "V ", "dev1/ai0", "µ", "a,b"]
    n_hist = 150 if ctx.quick else 3000
    for h in range(n_hist):
        kind = rng.choice(list(objs))
        mk, attrs = objs[kind]
        o = mk()
        lines.append("unew"); expect.append("ok")
        for a, k in attrs:      # what construction stored
            if k in o.extended_properties:
                lines.append(f"udictset {enc_s(k)} {enc_p(o.extended_properties[k])}"); expect.append("ok")
        shadow = dict(o.extended_properties)
        for _ in range(rng.randint(2, 14)):
            op = rng.choice(["aset", "aset", "abad", "dset", "dset", "dother", "ddel", "pickle", "dbad"])
            a, k = rng.choice(attrs)
            if op == "aset":
                v = rng.choice(STRS)
                r = outcome(setattr, o, a, v)
                if r[0] != "ok":
                    ctx.violation(what="units/channel_name setter refused a str", kind=kind, attr=a, value=v, observed=show(r), required="accepted")
                    return
                shadow[k] = v
                lines.append(f"uattrset {enc_s(k)} {enc_p(v)}"); expect.append("ok")
            elif op == "abad":
                v = rng.choice(list(NONSTR))
                r = outcome(setattr, o, a, v)
                if not (r[0] == "err" and r[1] == "TypeError"):
                    ctx.violation(what="non-str units/channel_name not refused with TypeError", kind=kind, attr=a, value=repr(v),
                                  observed=show(r), required="TypeError")
                    return
                lines.append(f"uattrset {enc_s(k)} {enc_p(v)}"); expect.append("err TypeError")
            elif op == "dset":
                v = rng.choice(STRS)
                o.extended_properties[k] = v
                shadow[k] = v
                lines.append(f"udictset {enc_s(k)} {enc_p(v)}"); expect.append("ok")
            elif op == "dother":
                k2 = rng.choice(["other", "NI_UnitDescription_Z", "ni_unitdescription", UD + " "])
                v = rng.choice(STRS)
                o.extended_properties[k2] = v
                shadow[k2] = v
                lines.append(f"udictset {enc_s(k2)} {enc_p(v)}"); expect.append("ok")
            elif op == "dbad":
                if rng.random() < 0.3:
                    v = rng.choice([5, 1.5])
                    o.extended_properties[k] = v
                    shadow[k] = v
                    lines.append(f"udictset {enc_s(k)} {enc_p(v)}"); expect.append("ok")
            elif op == "ddel":
                r = outcome(operator.delitem, o.extended_properties, k)
                if k in shadow:
                    del shadow[k]
                lines.append(f"udictdel {enc_s(k)}"); expect.append("ok" if r[0] == "ok" else "err " + r[1])
            elif op == "pickle":
                o = rng.choice([lambda x: pickle.loads(pickle.dumps(x)), copy.deepcopy, copy.copy])(o)
                # (a copy has exactly the dictionary of the original: since fix d-units of /repo the constructor's default units
                #  entry is not added to a rebuilt object that had none)
            ctx.count("history-op", op)
            # oracle: every attribute is the dictionary entry (or "")
            for a2, k2 in attrs:
                entry = o.extended_properties.get(k2, "")
                if shadow.get(k2, "") != entry:
                    ctx.violation(what="dictionary entry is not the last value written", kind=kind, key=k2, observed=repr(entry),
                                  required=repr(shadow.get(k2, "")))
                    return
                r = outcome(getattr, o, a2)
                if isinstance(entry, str):
                    if r != ("ok", entry):
                        ctx.violation(what="attribute and extended property disagree", kind=kind, attr=a2, key=k2, after=op,
                                      observed=show(r), required=repr(entry))
                        return
                lines.append(f"uattrget {enc_s(k2)}"); expect.append("ok " + enc_s(r[1]) if r[0] == "ok" else "err " + r[1])
            lines.append("udict"); expect.append(dict_text(o.extended_properties))
        ctx.case(("hist", kind, h), nontrivial=True)


def run_ctor(ctx, lines, expect):
    from nitypes.scalar import Scalar
    from nitypes.vector import Vector
    from nitypes.xy_data import XYData
    from nitypes.waveform import ExtendedPropertyDictionary
    ARGS = ["", "V", "mV", "Ω", None, 5, 1.5, b"V"]
    ENTRIES = ["<absent>", "", "V", "mV", "Ω"]
    xa, ya = np.array([1, 2], np.int32), np.array([3, 4], np.int32)
    for u in ARGS:
        for e in ENTRIES:
            for share in (False, True):
                for extra in (False, True):
                    for cls in ("Scalar", "Vector", "XYx", "XYy"):
                        key = {"Scalar": UD, "Vector": UD, "XYx": UDX, "XYy": UDY}[cls]
                        base = {}
                        if extra:
                            base["other"] = "z"
                        if e != "<absent>":
                            base[key] = e
                        props = ExtendedPropertyDictionary(base) if share else dict(base)
                        kw = dict(extended_properties=props, copy_extended_properties=not share)
                        if cls == "Scalar":
                            r = outcome(lambda: Scalar(1, u, **kw)); attr = "units"
                        elif cls == "Vector":
                            r = outcome(lambda: Vector([1, 2], u, **kw)); attr = "units"
                        elif cls == "XYx":
                            r = outcome(lambda: XYData(xa, ya, x_units=u, **kw)); attr = "x_units"
                        else:
                            r = outcome(lambda: XYData(xa, ya, y_units=u, **kw)); attr = "y_units"
                        ctx.case(("ctor", cls, repr(u), e, share, extra), nontrivial=True)
                        ctx.count("ctor", r[0] if r[0] == "ok" else r[1])
                        is_str = isinstance(u, str)
                        # oracle (the property)
                        if cls in ("Scalar", "Vector") and not is_str:
                            if not (r[0] == "err" and r[1] == "TypeError"):
                                ctx.violation(what="non-str units not refused with TypeError", cls=cls, units=repr(u), entry=e,
                                              observed=show(r), required="TypeError")
                        elif is_str:
                            conflict = u != "" and e != "<absent>" and u != e
                            if conflict and not (r[0] == "err" and r[1] == "ValueError"):
                                ctx.violation(what="conflicting units argument accepted", cls=cls, units=u, entry=e, observed=show(r),
                                              required="ValueError")
                            if not conflict:
                                want = e if e != "<absent>" else u
                                if r[0] != "ok":
                                    ctx.violation(what="consistent units argument refused", cls=cls, units=u, entry=e, observed=show(r),
                                                  required="accepted")
                                else:
                                    got = (getattr(r[1], attr), r[1].extended_properties.get(key))
                                    if got != (want, want):
                                        ctx.violation(what="constructed units differ from argument/entry", cls=cls, units=u, entry=e,
                                                      observed=repr(got), required=repr((want, want)))
                                    if share and r[1].extended_properties is not props:
                                        ctx.violation(what="copy_extended_properties=False did not share the dictionary", cls=cls,
                                                      observed="copied", required="shared")
                                    if not share and r[1].extended_properties is props:
                                        ctx.violation(what="copy_extended_properties=True shared the dictionary", cls=cls,
                                                      observed="shared", required="copied")
                                    # ... and not only the wrapper object: the storage behind it
                                    props["probe_from_caller"] = "c"
                                    r[1].extended_properties["probe_from_object"] = "o"
                                    seen_by_obj = "probe_from_caller" in r[1].extended_properties
                                    seen_by_caller = "probe_from_object" in props
                                    if seen_by_obj != share or seen_by_caller != share:
                                        ctx.violation(what="extended properties storage " + ("not shared although copy_extended_properties=False" if share else "shared with the caller's mapping although it is to be copied"),
                                                      cls=cls, mapping=type(props).__name__, observed=f"object sees caller's write: {seen_by_obj}; caller sees object's write: {seen_by_caller}",
                                                      required="both" if share else "neither")
                                    for m_ in (props, r[1].extended_properties):
                                        m_.pop("probe_from_caller", None); m_.pop("probe_from_object", None)
                        # model
                        lines.append("unew"); expect.append("ok")
                        for k, v in base.items():
                            lines.append(f"udictset {enc_s(k)} {enc_p(v)}"); expect.append("ok")
                        if cls in ("XYx", "XYy"):
                            # the other axis is constructed with "" (x first)
                            first, second = (UDX, u if cls == "XYx" else ""), (UDY, u if cls == "XYy" else "")
                            lines.append(f"uctor 0 {enc_s(first[0])} {enc_p(first[1])}")
                            if cls == "XYx":
                                expect.append("ok" if r[0] == "ok" else "err " + r[1])
                                if r[0] == "ok":
                                    lines.append(f"uctor 0 {enc_s(second[0])} {enc_p(second[1])}"); expect.append("ok")
                            else:
                                expect.append("ok")
                                lines.append(f"uctor 0 {enc_s(second[0])} {enc_p(second[1])}")
                                expect.append("ok" if r[0] == "ok" else "err " + r[1])
                        else:
                            lines.append(f"uctor 1 {enc_s(key)} {enc_p(u)}"); expect.append("ok" if r[0] == "ok" else "err " + r[1])
                        if r[0] == "ok":
                            lines.append("udict"); expect.append(dict_text(r[1].extended_properties))


def run_same_mapping(ctx):
    """one caller-owned mapping handed to several constructors: every object gets its own copy"""
    import numpy as np
    from nitypes.scalar import Scalar
    from nitypes.vector import Vector
    from nitypes.xy_data import XYData
    from nitypes.waveform import AnalogWaveform, Spectrum, DigitalWaveform, ExtendedPropertyDictionary
    makers = [("Scalar", lambda u, p: Scalar(1.5, u, extended_properties=p), "units"), ("Vector", lambda u, p: Vector([1, 2], u, extended_properties=p), "units"),
              ("XYData", lambda u, p: XYData(np.zeros(2), np.zeros(2), x_units=u, extended_properties=p), "x_units"),
              ("AnalogWaveform", lambda u, p: AnalogWaveform(2, extended_properties=p), "units"),
              ("Spectrum", lambda u, p: Spectrum(2, extended_properties=p), "units"),
              ("DigitalWaveform", lambda u, p: DigitalWaveform(2, 2, extended_properties=p), "channel_name")]
    for mapping_kind in ("dict", "epd"):
        for (n1, m1, a1) in makers:
            for (n2, m2, a2) in makers:
                d = {"k": "1"}
                if mapping_kind == "epd":
                    d = ExtendedPropertyDictionary(d)
                snapshot = dict(d)
                o1 = outcome(m1, "V", d)
                o2 = outcome(m2, "A", d)
                ctx.case(("same-mapping", mapping_kind, n1, n2))
                if o1[0] != "ok" or o2[0] != "ok":
                    ctx.violation(what="a mapping used for one object made the construction of another fail", first=n1, second=n2, mapping=mapping_kind,
                                  observed=f"{show(o1)[:80]} / {show(o2)[:80]}", required="two independent objects")
                    return
                if dict(d) != snapshot:
                    ctx.violation(what="a constructor wrote into the caller's mapping", first=n1, second=n2, mapping=mapping_kind, observed=str(dict(d)), required=str(snapshot))
                    return
                setattr(o1[1], a1, "changed")
                if getattr(o2[1], a2) == "changed" and (a1 != a2 or True) and o2[1].extended_properties is not o1[1].extended_properties:
                    k1 = {"units": "NI_UnitDescription", "x_units": "NI_UnitDescription_X", "channel_name": "NI_ChannelName"}[a1]
                    if o2[1].extended_properties.get(k1) == "changed":
                        ctx.violation(what="two objects built from the same mapping share their property storage", first=n1, second=n2, mapping=mapping_kind,
                                      observed=f"writing {a1} of the first changed the second", required="independent")
                        return


OPS = {"lt": operator.lt, "le": operator.le, "gt": operator.gt, "ge": operator.ge}


def run_scalar(ctx, lines, expect):
    from nitypes.scalar import Scalar
    rng = ctx.rng
    P53 = 2 ** 53
    pool = [False, True, 0, 1, -1, 2, P53, P53 + 1, -(P53 + 1), 10 ** 30, -10 ** 30,
            0.0, -0.0, 1.0, 0.5, -0.5, 1.5, float(P53), float(P53) + 2, 1e300, -1e300, 5e-324, 1e30,
            float("nan"), float("inf"), float("-inf"),
            "", "a", "A", "apple", "apples", "banana", "Banana", "é", "e", "z", "😀", "￿", "5.0", "1", " "]
    for _ in range(0 if ctx.quick else 60):
        c = rng.random()
        if c < 0.3:
            pool.append(rng.randint(-2 ** 70, 2 ** 70))
        elif c < 0.6:
            pool.append(rng.choice([rng.uniform(-10, 10), float(rng.randint(-2 ** 60, 2 ** 60)), rng.random() * 1e-300]))
        else:
            pool.append("".join(rng.choice("abAB é😀") for _ in range(rng.randint(0, 4))))
    UNITS = [("V", "V"), ("V", "v"), ("", ""), ("", "V"), ("\u2126", "\u03a9"), ("V", "V "), ("V", "mV"), ("Ω", "Ω"), ("é", "e\u0301")]
    # value types
    for bad in [None, 1 + 2j, b"x", [1], (1,), np.int32(3), np.float32(1.5), {"a": 1}, object()]:
        r = outcome(Scalar, bad)
        ctx.case(("scalar-type", type(bad).__name__))
        if not (r[0] == "err" and r[1] == "TypeError"):
            ctx.violation(what="Scalar accepted a value that is not bool/int/float/str", value=repr(bad), observed=show(r), required="TypeError")
    for good in [True, 3, 2.5, "x", np.float64(2.5), np.str_("q")]:
        r = outcome(Scalar, good)
        if r[0] != "ok" or r[1].value != good:
            ctx.violation(what="Scalar refused a bool/int/float/str value", value=repr(good), observed=show(r), required="accepted")
    is_num = lambda v: isinstance(v, (bool, int, float))  # noqa: E731
    for a in pool:
        for b in pool:
            for ua, ub in (UNITS if not ctx.quick else UNITS[:6]):
                sa, sb = Scalar(a, ua), Scalar(b, ub)
                mixed = is_num(a) != is_num(b)
                for name, fn in OPS.items():
                    r = outcome(fn, sa, sb)
                    ctx.count("scalar-order", r[0] if r[0] == "ok" else r[1])
                    if ua != ub and mixed:
                        ok = r[0] == "err" and r[1] in ("ValueError", "TypeError"); want = "ValueError or TypeError"
                    elif ua != ub:
                        ok = r[0] == "err" and r[1] == "ValueError"; want = "ValueError"
                    elif mixed:
                        ok = r[0] == "err" and r[1] == "TypeError"; want = "TypeError"
                    else:
                        want = fn(a, b)
                        ok = r[0] == "ok" and r[1] is want
                    if not ok:
                        ctx.violation(what="Scalar ordering", op=name, a=repr(a), a_units=ua, b=repr(b), b_units=ub, observed=show(r), required=repr(want))
                        return
                    lines.append(f"sorder {name} {enc_v(a)} {enc_s(ua)} {enc_v(b)} {enc_s(ub)}")
                    expect.append(("ok " + str(r[1])) if r[0] == "ok" else "err " + r[1])
                req_eq = (not mixed) and (a == b) and ua == ub
                r = outcome(operator.eq, sa, sb)
                rn = outcome(operator.ne, sa, sb)
                if r != ("ok", req_eq) or rn != ("ok", not req_eq):
                    ctx.violation(what="Scalar equality", a=repr(a), a_units=ua, b=repr(b), b_units=ub, observed=show(r) + " / != " + show(rn),
                                  required=repr(req_eq))
                    return
                lines.append(f"seq {enc_v(a)} {enc_s(ua)} {enc_v(b)} {enc_s(ub)}"); expect.append("ok " + str(r[1]))
            ctx.case(("scalar-pair", repr(a), repr(b)))
    # a non-Scalar operand: == is False, ordering is a TypeError raised by Python itself
    s = Scalar(1, "V")
    for other in (1, "V", None, 1.0):
        if (s == other) is not False or (s != other) is not True:
            ctx.violation(what="Scalar == non-Scalar", other=repr(other), observed=repr(s == other), required="False")
        r = outcome(operator.lt, s, other)
        if not (r[0] == "err" and r[1] == "TypeError"):
            ctx.violation(what="Scalar < non-Scalar", other=repr(other), observed=show(r), required="TypeError")


DTYPES = [(0, np.float32), (1, np.float64), (2, np.int8), (3, np.int16), (4, np.int32), (5, np.int64), (6, np.uint8),
          (7, np.uint16), (8, np.uint32), (9, np.uint64), (10, ">i4"), (11, ">f8"), (12, ">u2"), (13, ">i8"),
          (20, np.float16), (21, np.complex64), (22, np.bool_), (23, "U3"), (24, np.longdouble), (25, "M8[s]"),
          (26, object), (27, [("real", "<i2"), ("imag", "<i2")])]
QUICK_TAGS = {0, 1, 4, 6, 10, 20, 21, 27}
SUPPORTED = {t for t, _ in DTYPES if t < 14}


def mk_arr(ndim, n, dt):
    shape = {0: (), 1: (n,), 2: (n, 2), 3: (n, 1, 2)}[ndim]
    return np.zeros(shape, dtype=dt)


def run_xy(ctx, lines, expect):
    from nitypes.xy_data import XYData
    rng = ctx.rng
    dts = [(t, d) for t, d in DTYPES if (not ctx.quick or t in QUICK_TAGS)]
    classes = []
    for t, d in dts:
        for nd in (0, 1, 2, 3) if not ctx.quick else (0, 1, 2):
            for n in ((0, 2, 3) if nd else (0,)):
                classes.append(("nd", nd, n, t, mk_arr(nd, n, d)))
    classes.append(("sc", 0, 0, 1, np.float64(1.0)))
    classes.append(("sc", 0, 0, 4, np.int32(1)))
    classes.append(("no", 1, 2, 99, [1, 2]))
    classes.append(("no", 0, 0, 99, None))
    classes.append(("no", 1, 2, 99, (1.0, 2.0)))
    for kx, ndx, nx, tx, x in classes:
        for ky, ndy, ny, ty, y in classes:
            r = outcome(XYData, x, y)
            ctx.count("xy-init", r[0] if r[0] == "ok" else r[1])
            if kx == "nd" and ky == "nd":
                good = ndx == 1 and ndy == 1 and nx == ny and tx == ty and tx in SUPPORTED
                if good:
                    okk = r[0] == "ok"
                    if okk:
                        o = r[1]
                        okk = (o.x_data is x and o.y_data is y and o.x_data.ndim == 1 and o.y_data.ndim == 1
                               and len(o.x_data) == len(o.y_data) and o.x_data.dtype == o.y_data.dtype == o.dtype)
                    if not okk:
                        ctx.violation(what="valid XYData arrays refused or not held as given", x=f"{ndx}-D len {nx} dtype {tx}",
                                      y=f"{ndy}-D len {ny} dtype {ty}", observed=show(r)[:200], required="accepted; 1-D, equal length, same dtype")
                        return
                elif not (r[0] == "err" and r[1] in ("TypeError", "ValueError")):
                    ctx.violation(what="invalid XYData arrays not refused with ValueError/TypeError",
                                  x=f"{ndx}-D len {nx} dtype {x.dtype}", y=f"{ndy}-D len {ny} dtype {y.dtype}", observed=show(r)[:200],
                                  required="ValueError or TypeError")
                    return
            lines.append(f"xyinit {kx}:{ndx}:{nx}:{tx} {ky}:{ndy}:{ny}:{ty}")
            expect.append("ok" if r[0] == "ok" else "err " + r[1])
        ctx.case(("xy-class", kx, ndx, nx, tx))
    # from_arrays_1d
    NUM = [(t, d) for t, d in DTYPES if t in (0, 1, 4, 6, 10, 20, 21, 22)]
    srcs = []
    for t, d in NUM:
        for nd in (0, 1, 2):
            for n in ((0, 2, 3) if nd else (0,)):
                srcs.append(("nd", nd, n, t, mk_arr(nd, n, d)))
    srcs += [("seq", 1, 2, 99, [1, 2]), ("seq", 1, 3, 98, (1.0, 2.0, 3.0)), ("seq", 1, 0, 97, []), ("seq", 2, 2, 96, [[1, 2], [3, 4]]),
             ("other", 0, 0, 95, None), ("other", 0, 0, 94, 5), ("other", 0, 0, 1, np.float64(1.0)), ("other", 1, 2, 93, {1, 2})]
    REQ = [None] + NUM
    pairs = [(a, b) for a in srcs for b in srcs]
    if ctx.quick:
        pairs = rng.sample(pairs, 1200)
    for (kx, ndx, nx, tx, x), (ky, ndy, ny, ty, y) in pairs:
        for req in (REQ if not ctx.quick else rng.sample(REQ, 3)):
            dt = None if req is None else req[1]
            r = outcome(lambda: XYData.from_arrays_1d(x, y, dt))
            ctx.count("xy-from", r[0] if r[0] == "ok" else r[1])
            if kx == "nd" and ky == "nd" and dt is None and x.dtype != y.dtype and r[0] == "ok":
                ctx.violation(what="from_arrays_1d accepted arrays of different dtype (no dtype requested)", x=str(x.dtype), y=str(y.dtype),
                              observed=f"{r[1].x_data.dtype} / {r[1].y_data.dtype}", required="TypeError or ValueError")
                return
            if r[0] == "ok" and dt is None and ((kx == "nd" and r[1].x_data.dtype != x.dtype) or (ky == "nd" and r[1].y_data.dtype != y.dtype)):
                ctx.violation(what="from_arrays_1d changed the dtype of an array although none was requested", observed=str(r[1].dtype), required=str(x.dtype))
                return
            if r[0] == "ok":
                o = r[1]
                if not (o.x_data.ndim == 1 and o.y_data.ndim == 1 and len(o.x_data) == len(o.y_data) and o.x_data.dtype == o.y_data.dtype
                        and (dt is None or o.dtype == np.dtype(dt))):
                    ctx.violation(what="from_arrays_1d built an XYData that is not two equal-length 1-D arrays of one dtype",
                                  x=repr(x)[:80], y=repr(y)[:80], dtype=str(dt), observed=f"{o.x_data!r} {o.y_data!r}"[:200],
                                  required="1-D, equal length, same dtype")
                    return
                if kx == "nd" and o.x_data is x or ky == "nd" and o.y_data is y or (kx == "nd" and np.shares_memory(o.x_data, x)):
                    ctx.violation(what="from_arrays_1d (copy=True) shares the caller's array", observed="shared", required="copied")
                    return
            elif r[1] not in ("TypeError", "ValueError"):
                ctx.violation(what="from_arrays_1d refusal class", x=repr(x)[:80], y=repr(y)[:80], dtype=str(dt), observed=show(r)[:200],
                              required="ValueError or TypeError")
                return
            lines.append(f"xyfrom {kx}:{ndx}:{nx}:{tx} {ky}:{ndy}:{ny}:{ty} {'-' if req is None else req[0]}")
            expect.append("ok" if r[0] == "ok" else "err " + r[1])
        ctx.case(("xy-from", kx, ndx, nx, tx, ky, ndy, ny, ty))
    # equality across dtypes is equality of the VALUES: integers that no float64 / float32 holds, unsigned against signed 64-bit
    big = [((2 ** 53 + 1, np.int64), (2.0 ** 53, np.float64)), ((2 ** 53 + 1, np.int64), (2 ** 53 + 1, np.int64)), ((2 ** 53, np.int64), (2.0 ** 53, np.float64)),
           ((2 ** 24 + 1, np.int32), (2.0 ** 24, np.float32)), ((2 ** 24 + 1, np.int32), (float(2 ** 24 + 1), np.float64)),
           ((2 ** 63 + 1, np.uint64), (2.0 ** 63, np.float64)), ((2 ** 64 - 1, np.uint64), (-1, np.int64)), ((2 ** 63, np.uint64), (-2 ** 63, np.int64)),
           ((2 ** 62 + 1, np.uint64), (2 ** 62 + 1, np.int64)), ((-(2 ** 53) - 1, np.int64), (-(2.0 ** 53), np.float64)),
           ((0.1, np.float32), (0.1, np.float64)), ((16777217, np.int64), (16777216.0, np.float32)), ((3, np.int8), (3.0, np.float64))]
    # every integer dtype's limits against the floats at and next to them (the first float beyond an integer range is where a cast wraps),
    # infinities and NaN against integers, and integers against the value a wrapping cast of the float would give
    for it in (np.int8, np.uint8, np.int16, np.uint16, np.int32, np.uint32, np.int64, np.uint64):
        info = np.iinfo(it)
        for ft in (np.float32, np.float64):
            for fv in (float(info.max) , float(info.max) + 1.0, float(2 ** info.bits), float(2 ** (info.bits - 1)), float(info.min), float(info.min) - 1.0, -float(2 ** info.bits),
                       float("inf"), float("-inf"), float("nan"), -0.0, 0.5):
                fv = float(ft(fv))
                for iv in (info.min, info.max, 0, -1 if info.min < 0 else 1, info.max - 1):
                    big.append(((iv, it), (fv, ft)))
    # ... alone, and inside long axes (whatever switches implementation with the length), at the front, in the middle and at the end
    for (va, ta), (vb, tb) in big:
        for axis, swap, pad, where in [(ax_, sw_, 0, 0) for ax_ in ("x", "y") for sw_ in (False, True)] + [("x", False, 129, 64), ("y", True, 200, 199), ("x", True, 1000, 0)]:
            if True:
                fill_a, fill_b = [1] * pad, [1] * pad
                la, lb = fill_a[:where] + [1, va] + fill_a[where:], fill_b[:where] + [1, vb] + fill_b[where:]
                one, two = np.array(la, ta), np.array(lb, tb)
                if swap:
                    one, two = two, one
                oth_a, oth_b = np.ones(len(one), one.dtype), np.ones(len(two), two.dtype)
                a = XYData(one, oth_a) if axis == "x" else XYData(oth_a, one)
                b = XYData(two, oth_b) if axis == "x" else XYData(oth_b, two)
                req = one.tolist() == two.tolist()
                r = outcome(operator.eq, a, b)
                ctx.case(("xy-eq-cross-dtype", str(va), str(one.dtype), str(vb), str(two.dtype), axis, swap, pad))
                ctx.count("xy-eq", "cross-dtype " + str(req))
                if r != ("ok", req) or (a != b) is not (not req):
                    ctx.violation(what="XYData equality across dtypes is not equality of the values", axis=axis, a=f"{one.tolist()} {one.dtype}", b=f"{two.tolist()} {two.dtype}",
                                  observed=show(r), required=repr(req))
    # equality
    VALS = [0, 1, 2, -1, 0.5, -0.5, 3, float("nan"), float("inf"), float("-inf")]
    for i in range(300 if ctx.quick else 6000):
        def axes():
            n = rng.randint(0, 3)
            dt = rng.choice([np.float64, np.float32, np.int32, np.int64])
            pick = VALS if dt in (np.float64, np.float32) else [0, 1, 2, -1, 3]
            return [np.array([rng.choice(pick) for _ in range(n)], dt) for _ in range(2)]
        x1, y1 = axes()
        if rng.random() < 0.6:
            dt2 = rng.choice([x1.dtype, np.dtype(np.float64)])
            x2, y2 = x1.astype(dt2), y1.astype(dt2)
            if rng.random() < 0.5 and len(x2):
                (x2 if rng.random() < 0.5 else y2)[rng.randrange(len(x2))] = rng.choice([0, 1, 2])
        else:
            x2, y2 = axes()
        if rng.random() < 0.25:
            # the two objects hold the very same ndarray objects (copy.copy, two XYData over one pair of arrays, copy=False): equality is
            # still equality of the values - an axis holding NaN is not equal to itself
            x2, y2 = x1, y1
        U = ["", "A", "V"]
        u = [rng.choice(U) for _ in range(2)]
        v = list(u) if rng.random() < 0.6 else [rng.choice(U) for _ in range(2)]
        a = XYData(x1, y1, x_units=u[0], y_units=u[1]); b = XYData(x2, y2, x_units=v[0], y_units=v[1])
        if x2 is x1 and u == v and rng.random() < 0.5:
            import copy as _copy
            b = _copy.copy(a)
        lst = lambda z: z.tolist()  # noqa: E731
        req = (len(x1) == len(x2) and all(p == q for p, q in zip(lst(x1), lst(x2))) and len(y1) == len(y2)
               and all(p == q for p, q in zip(lst(y1), lst(y2))) and u == v)
        r = outcome(operator.eq, a, b)
        if r != ("ok", req) or (a != b) is not (not req):
            ctx.violation(what="XYData equality", a=repr(a)[:200], b=repr(b)[:200], observed=show(r), required=repr(req))
            return
        encl = lambda z: "_" if len(z) == 0 else ",".join(enc_num(float(q) if isinstance(q, float) else q)[1:] for q in lst(z))  # noqa: E731
        lines.append(f"xyeq {encl(x1)} {encl(y1)} {enc_s(u[0])} {enc_s(u[1])} {encl(x2)} {encl(y2)} {enc_s(v[0])} {enc_s(v[1])}")
        expect.append("ok " + str(r[1]))
        ctx.count("xy-eq", str(req))
    ctx.case(("xy-eq",))


def run(ctx):
    import warnings
    lines, expect = [], []
    with warnings.catch_warnings():
        warnings.simplefilter("ignore")     # ComplexWarning from deliberately lossy from_arrays_1d requests
        for part in (run_histories, run_ctor, run_scalar, run_xy):
            part(ctx, lines, expect)
        run_same_mapping(ctx)
    res = ctx.model(lines)
    if res is not None:
        for q, want, got in zip(lines, expect, res):
            if got != want:
                ctx.mismatch(stream="units " + q.split()[0], request=q[:300], model_says=got[:200], code_says=want[:200])
                break
    ctx.extra["model_lines_compared"] = len(lines)
    ctx.evaluations += len(lines)
    for q, e in list(zip(lines, expect))[:4000:400]:
        ctx.sample({"request": q[:120], "response": e[:120]})


def replay(doc):
    print(doc.get("input"))
    return 0
