"""Shared correspondence stream for translator tier T14 (`ExtendedPropertyDictionary` over `Py.Dict`): seeded histories of
construction, writes, deletions and merges on the REAL class with a registered listener, against the generated writers
(drivers/ExtProps.lean): the entries in order and the keys notified by every single call."""
import weakref


def ext_props_cases(ctx, n_hist=None):
    from nitypes.waveform import ExtendedPropertyDictionary
    from props.common import outcome
    rng = ctx.rng
    keys = ["a", "b", "c", "NI_LineNames", "NI_ChannelName", "NI_UnitDescription", "k7"]
    vals = ["x", "y", "z", "p0", "q"]
    lines, wants = [], []
    n_hist = n_hist or (60 if ctx.quick else 600)
    keep = []
    for h in range(n_hist):
        notes = []

        def cb(key, notes=notes):
            notes.append(key)
        keep.append(cb)

        def entries(n):
            ks = rng.sample(keys, n)
            return {k: rng.choice(vals) for k in ks}
        init = entries(rng.randint(0, 4)) if rng.random() < 0.7 else None
        src = init if rng.random() < 0.5 or init is None else ExtendedPropertyDictionary(init)
        ep = ExtendedPropertyDictionary(src)
        ep._on_key_changed.append(weakref.ref(cb))
        if init is None:
            lines.append("einit")
        else:
            lines.append("einit " + (",".join(f"{k}:{v}" for k, v in init.items()) or "-"))
        wants.append("ok [] | " + ",".join(f"{k}:{v}" for k, v in ep.items()))
        for _ in range(rng.randint(1, 10)):
            del notes[:]
            r = rng.random()
            if r < 0.4:
                k, v = rng.choice(keys), rng.choice(vals)
                how = rng.choice(["setitem", "update", "setdefault-absent"])
                if how == "setdefault-absent" and k in ep:
                    how = "setitem"
                if how == "setitem": ep[k] = v
                elif how == "update": ep.update({k: v})
                else: ep.setdefault(k, v)
                lines.append(f"eset {k} {v}")
                o = ("ok", None)
            elif r < 0.65:
                k = rng.choice(keys)
                how = rng.choice(["del", "pop"])
                o = outcome(lambda: ep.__delitem__(k)) if how == "del" else outcome(lambda: ep.pop(k))
                lines.append(f"edel {k}")
            else:
                other = entries(rng.randint(0, 4))
                ep._merge(ExtendedPropertyDictionary(other))
                lines.append("emerge " + (",".join(f"{k}:{v}" for k, v in other.items()) or "-"))
                o = ("ok", None)
            ctx.count("ext-props op", lines[-1].split()[0])
            if o[0] == "ok":
                wants.append("ok [" + ",".join(notes) + "] | " + ",".join(f"{k}:{v}" for k, v in ep.items()))
            else:
                wants.append("err " + o[1])
    res = ctx.model(lines, driver="drivers/ExtProps.lean")
    if res is None:
        return 0
    for i, (line, want, got) in enumerate(zip(lines, wants, res)):
        ctx.case(("ext-props", i, line))
        if got != want:
            start = max(j for j in range(i + 1) if lines[j].startswith("einit"))
            ctx.mismatch(stream="ExtendedPropertyDictionary writers (T14)", request=line, history=lines[start:i + 1][-12:], model_says=got, code_says=want)
            break
    return len(lines)
