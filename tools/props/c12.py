"""C12 — copy=True isolates, copy=False shares: no hidden aliasing and no hidden copies."""
from __future__ import annotations

import datetime as dt
import os
import shutil
import tempfile

import numpy as np

from props.common import outcome, show

PID = "C12"
LEAN_MODULE = "NiVerif.Props.C12"
NAMESPACE = "Props.C12"
DRIVER = "drivers/C12.lean"
GEN_MODULES = ["ExtProps", "AsarrayShim"]
EXTRA_LEAN_MODULES = ["NiVerif.Model.Heap", "NiVerif.Props.ExtProps"]
THEOREMS = ["grow_same_cell", "appendGrow_same_cell", "view_cannot_grow", "cellOf_set", "readAt_writeAt", "read_write_other_cell", "writes_frame", "read_alloc_old", "read_alloc_new",
            "alloc_fresh", "copy_true_fresh", "copy_true_succeeds", "copy_true_isolates", "copy_false_shares",
            "no_silent_copy", "copy_false_outcomes", "write_slice", "read_slice", "window_write_lands_in_buffer",
            "window_read_is_buffer", "pick_getElem?", "column_write_lands_in_data", "read_write_same",
            "shared_write_visible", "writeMany_cell", "writeMany_read", "append_lands_in_caller_memory", "append_frame",
            "loadAdopt_shares", "loadCopy_keeps_own_cell", "share_iff",
            "Props.ExtProps.gen_init_copies", "Props.ExtProps.gen_init_empty",
            # T26: the generated NumPy 1.x shim and the asarray call sites (Gen/AsarrayShim.lean)
            "gen_shim_eq_model", "gen_shim_default", "gen_shim_copy_true_fresh", "gen_shim_no_silent_copy", "gen_sites_pass_flag", "gen_sites_cover",
            "gen_switch"]
RULE = ("seeded scenarios: a source (owning 1-D/2-D array, slice, strided, reversed, row, column, memory-mapped file, list / "
        "nested list) x construction or load path (from_array_1d, from_array_2d, raw constructors, load_data on numeric "
        "waveforms / Spectrum / DigitalWaveform, DigitalWaveform.from_lines 1-D and 2-D, from_port(s), XYData and "
        "XYData.from_arrays_1d) x copy flag x dtype-cast-or-not, followed by writes from both sides (through the source, its "
        "owner, raw_data / data / get_raw_data / get_data / signal.data / x_data / y_data) and appends within capacity. "
        "After every step the real arrays are located in memory (base address and strides) and cell + element positions are "
        "compared with Model/Heap.lean, all values on both sides are compared with the model, and the property is checked "
        "directly (np.shares_memory, visibility of writes, ValueError for impossible no-copy requests, memmap file re-read). "
        "extended_properties (None / dict / ExtendedPropertyDictionary x copy flag) on every class and Timing timestamps "
        "(list / tuple x copy_timestamps) likewise; the NumPy 1.x asarray shim is run on the same asarray cases")
TRUSTED = ["hand model NiVerif/Model/Heap.lean (cells, references as position lists, asarray rule, adopt / load / append / "
           "views) tied by locating the real arrays in memory; NumPy's own ownership and aliasing is observed, not verified",
           "OS-level persistence of a memory-mapped file is observed (flush + re-read), not modelled"]
ASSUMPTIONS = ["cells hold integers exactly representable in every dtype of the scenario",
               "in-place growth (resize) is exercised only on buffers no live NumPy view refers to (NumPy leaves such views "
               "dangling; outside the property)"]


def ptr(a):
    return a.__array_interface__["data"][0]


class Mem:
    """Registry of memory cells in model allocation order; owners are kept alive, pointers re-read on every use."""

    def __init__(self):
        self.owners = []

    def add(self, owner):
        self.owners.append(owner)
        return len(self.owners) - 1

    def offsets(self, a):
        if a.size == 0:
            return np.zeros(0, np.int64)
        off = np.zeros(a.shape, np.int64)
        for k, st in enumerate(a.strides):
            sh = [1] * a.ndim
            sh[k] = a.shape[k]
            off = off + (np.arange(a.shape[k], dtype=np.int64) * st).reshape(sh)
        return off.ravel() + ptr(a)

    def locate(self, a):
        """(cell index or None if not in a registered cell, element positions) — ('empty', []) for size 0."""
        if a.size == 0:
            return ("empty", [])
        offs = self.offsets(a)
        for i, o in enumerate(self.owners):
            if o.size == 0:
                continue
            oo = self.offsets(o)
            if oo.min() <= offs.min() and offs.max() <= oo.max():
                # positions are the owner's logical (C-order) element numbers, whatever its memory layout
                pos = {int(x): k for k, x in enumerate(oo)}
                if all(int(x) in pos for x in offs):
                    return (i, [pos[int(x)] for x in offs])
        return (None, [])

    def locate_or_register(self, a):
        c, idx = self.locate(a)
        if c is None:
            owner = a
            while isinstance(getattr(owner, "base", None), np.ndarray):
                owner = owner.base
            c = self.add(owner)
            c2, idx = self.locate(a)
            assert c2 == c
        return c, idx


def ints_of(a):
    return [int(x.real) if isinstance(x, (complex, np.complexfloating)) else int(x) for x in np.asarray(a).ravel().tolist()]


def enc_ints(l):
    return "_" if len(l) == 0 else ",".join(str(int(x)) for x in l)


def ref_text(cell, idx, dtag):
    return f"ok cell={cell} idx={enc_ints(idx)} dtype={dtag}"


DT = {np.dtype(np.float64): 1, np.dtype(np.float32): 0, np.dtype(np.int32): 4, np.dtype(np.int16): 3, np.dtype(np.uint8): 6,
      np.dtype(np.complex128): 9, np.dtype(np.complex64): 8, np.dtype(np.int64): 5, np.dtype(np.uint16): 7, np.dtype(np.bool_): 10}


class Scenario:
    """One scenario: model lines + expected responses, built while the real code runs."""

    def __init__(self, ctx, tmpdir):
        self.ctx, self.rng, self.tmpdir = ctx, ctx.rng, tmpdir
        self.mem = Mem()
        self.lines, self.expect = ["reset"], ["ok"]
        self.refs = {}      # name -> real ndarray (views / owners)
        self.objs = {}      # name -> (real object, kind, ncols)
        self.n = 0
        self.ok = True

    def fresh(self, p):
        self.n += 1
        return f"{p}{self.n}"

    def emit(self, line, want):
        self.lines.append(line); self.expect.append(want)

    def viol(self, **kw):
        self.ok = False
        self.ctx.violation(**kw)

    # ---- sources -------------------------------------------------------------------------------------------------
    def new_owner(self, dtype, shape, memmap=False):
        n = int(np.prod(shape))
        vals = list(range(1, n + 1))
        if np.dtype(dtype) == np.uint8:
            vals = [(v % 7) + 1 for v in vals]
        if memmap:
            path = os.path.join(self.tmpdir, self.fresh("mm") + ".bin")
            np.asarray(vals, dtype).tofile(path)
            a = np.memmap(path, dtype=dtype, mode="r+", shape=shape)
            a._verif_path = path
        else:
            a = np.array(vals, dtype).reshape(shape).copy()      # an array that owns its memory (reshape alone returns a view)
        name = self.fresh("A")
        cell = self.mem.add(a)
        self.refs[name] = a
        self.emit(f"alloc {name} {DT[np.dtype(dtype)]} {enc_ints(vals)}", ref_text(cell, list(range(n)), DT[np.dtype(dtype)]))
        return name

    def view(self, base_name, real_view):
        """register a real view of a registered owner as a model reference (positions come from memory)"""
        name = self.fresh("S")
        c, idx = self.mem.locate(real_view)
        base = self.refs[base_name]
        bc, bidx = self.mem.locate(base)
        if real_view.size == 0:
            ks = []
        else:
            assert c == bc
            pos = {p: k for k, p in enumerate(bidx)}
            ks = [pos[p] for p in idx]
        self.refs[name] = real_view
        self.emit(f"pick {name} {base_name} {enc_ints(ks)}", ref_text(bc if real_view.size else self.cell_of(base_name), idx, DT[base.dtype]))
        return name

    def cell_of(self, name):
        c, _ = self.mem.locate(self.refs[name]) if self.refs[name].size else (None, [])
        if c in (None, "empty"):
            # empty views keep the cell number of the owner they came from: find by identity of base
            a = self.refs[name]
            b = a
            while isinstance(getattr(b, "base", None), np.ndarray):
                b = b.base
            for i, o in enumerate(self.mem.owners):
                if o is b or o is a:
                    return i
            return 0
        return c

    def source_1d(self, dtype):
        """(model name or None for a sequence, real source, is_array)"""
        rng = self.rng
        kind = rng.choice(["own", "own", "slice", "strided", "reversed", "row", "column", "memmap", "list", "tuple"])
        self.ctx.count("source-kind", kind)
        if kind in ("list", "tuple"):
            vals = [rng.randint(1, 50) for _ in range(rng.randint(0, 6))]
            name = self.fresh("L")
            self.emit(f"seq {name} {enc_ints(vals)}", "ok")
            return name, (list(vals) if kind == "list" else tuple(vals)), False
        if kind in ("row", "column"):
            a = self.new_owner(dtype, (rng.randint(2, 4), rng.randint(2, 4)))
            A = self.refs[a]
            v = A[rng.randrange(A.shape[0])] if kind == "row" else A[:, rng.randrange(A.shape[1])]
            return self.view(a, v), v, True
        a = self.new_owner(dtype, (rng.randint(1, 9),), memmap=(kind == "memmap"))
        A = self.refs[a]
        if kind in ("own", "memmap"):
            return a, A, True
        if kind == "slice":
            i = rng.randint(0, len(A)); j = rng.randint(i, len(A))
            v = A[i:j]
        elif kind == "strided":
            v = A[rng.randint(0, 1)::2]
        else:
            v = A[::-1]
        return self.view(a, v), v, True

    def source_2d(self, dtype):
        rng = self.rng
        kind = rng.choice(["own", "own", "rows", "cols", "transposed", "memmap", "nested"])
        self.ctx.count("source-kind-2d", kind)
        r, c = rng.randint(1, 4), rng.randint(1, 3)
        if kind == "nested":
            rows = [[rng.randint(1, 7) for _ in range(c)] for _ in range(r)]
            return None, rows, False
        a = self.new_owner(dtype, (r + 1, c + 1), memmap=(kind == "memmap"))
        A = self.refs[a]
        if kind in ("own", "memmap"):
            return a, A, True
        v = A[1:] if kind == "rows" else (A[:, 1:] if kind == "cols" else A.T)
        return self.view(a, v), v, True

    # ---- observation ---------------------------------------------------------------------------------------------
    def expect_ref(self, line, real_arr, dtag, fresh_ok=True):
        """emit a model line whose response is a reference; the expected text is where the real array lives"""
        if real_arr.size == 0:
            # nothing to locate: accept the model's cell, compare positions (none) only
            self.emit(line, ("prefix", "idx=_ "))
            return
        c, idx = self.mem.locate_or_register(real_arr)
        self.emit(line, ref_text(c, idx, dtag))

    def check_values(self):
        for name, a in self.refs.items():
            if isinstance(a, np.ndarray):
                self.emit(f"read {name}", "ok " + enc_ints(ints_of(a)))
        for name, (o, kind, nc) in self.objs.items():
            self.emit(f"readobj {name}", "ok " + enc_ints(ints_of(self.raw(o, kind))))

    @staticmethod
    def raw(o, kind):
        return o.data if kind in ("digital", "spectrum") else (o if kind == "axis" else o.raw_data)

    def check_views(self, w):
        o, kind, nc = self.objs[w]
        if kind == "axis":
            self.expect_ref(f"view {w}", o, DT[o.dtype])
            return
        r = self.raw(o, kind)
        self.expect_ref(f"view {w}", r, DT[r.dtype])
        n = len(r)
        a = self.rng.randint(0, n); b = self.rng.randint(0, n - a)
        g = o.get_data(a, b) if kind in ("digital", "spectrum") else o.get_raw_data(a, b)
        self.expect_ref(f"window {w} {a} {b}", g, DT[r.dtype])
        if kind == "digital" and n:
            for i in range(o.signal_count):
                sig = o.signals[i]
                self.expect_ref(f"column {w} {sig.column_index}", sig.data, DT[r.dtype])

    # ---- writes --------------------------------------------------------------------------------------------------
    def random_writes(self, pairs):
        """pairs: (source name, object name, shared: True/False/None) relations established by construction, for the oracle"""
        rng = self.rng
        for _ in range(rng.randint(2, 6)):
            side = rng.choice(["src", "obj", "owner", "col"])
            v = rng.randint(60, 120)
            arrs = [(n, a) for n, a in self.refs.items() if isinstance(a, np.ndarray) and a.size]
            objs = [(n, t) for n, t in self.objs.items() if self.raw(t[0], t[1]).size]
            before = self.snapshot()
            if side in ("src", "owner") and arrs:
                n, a = rng.choice(arrs)
                k = rng.randrange(a.size)
                a.flat[k] = v
                self.emit(f"wref {n} {k} {v}", "ok")
                self.judge(before, ("ref", n), pairs)
            elif side == "obj" and objs:
                n, (o, kind, nc) = rng.choice(objs)
                r = self.raw(o, kind)
                k = rng.randrange(r.size)
                r.flat[k] = v
                self.emit(f"wobj {n} {k} {v}", "ok")
                self.judge(before, ("obj", n), pairs)
            elif side == "col":
                cand = [(n, t) for n, t in objs if t[1] == "digital"]
                if cand:
                    n, (o, kind, nc) = rng.choice(cand)
                    i = rng.randrange(o.signal_count)
                    sig = o.signals[i]
                    j = rng.randrange(len(sig.data))
                    sig.data[j] = v % 8
                    self.emit(f"wcol {n} {sig.column_index} {j} {v % 8}", "ok")
                    self.judge(before, ("obj", n), pairs)
            self.ctx.count("write-side", side)
            self.check_values()

    def snapshot(self):
        s = {("ref", n): ints_of(a) for n, a in self.refs.items() if isinstance(a, np.ndarray)}
        s.update({("obj", n): ints_of(self.raw(o, k)) for n, (o, k, nc) in self.objs.items()})
        return s

    def judge(self, before, writer, pairs):
        """the property itself: an isolated partner must not change when the other side is written"""
        after = self.snapshot()
        for sname, oname, shared in pairs:
            if shared is not False:
                continue
            a, b = ("ref", sname), ("obj", oname)
            if writer == a and before.get(b) != after.get(b):
                self.viol(what="write to the source changed an object built/loaded with copy=True", source=sname, object=oname,
                          observed=str(after.get(b)), required=str(before.get(b)))
            if writer == b and before.get(a) != after.get(a):
                self.viol(what="write through an object built/loaded with copy=True changed the source", source=sname, object=oname,
                          observed=str(after.get(a)), required=str(before.get(a)))


def numeric_classes():
    from nitypes.waveform import AnalogWaveform, ComplexWaveform, Spectrum
    return [("analog", AnalogWaveform, [np.float64, np.int32, np.int16]), ("complex", ComplexWaveform, [np.complex128]),
            ("spectrum", Spectrum, [np.float64, np.float32])]


def oracle_construct(sc, what, src, is_arr, src_dtype, req, copy, r, raw_of):
    """the statement of C12 for one construction: r = outcome, raw_of(obj) = its data array"""
    needs_copy = (not is_arr) or (req is not None and np.dtype(req) != src_dtype)
    if copy is False and needs_copy:
        if not (r[0] == "err" and r[1] == "ValueError"):
            sc.viol(what=f"{what}: a no-copy request that needs a copy did not raise ValueError", source=repr(src)[:120], dtype=str(req),
                    observed=show(r)[:200], required="ValueError")
        return
    if r[0] != "ok":
        return
    raws = raw_of(r[1])
    if is_arr:
        for raw in raws:
            sh = bool(raw.size) and np.shares_memory(src, raw)
            if copy and sh:
                sc.viol(what=f"{what}: copy=True shares memory with the source", source=repr(src)[:120], observed="shares memory", required="independent")
            if copy is False and raw.size and not sh:
                sc.viol(what=f"{what}: copy=False made a hidden copy", source=repr(src)[:120], observed="independent memory", required="shares the caller's buffer")


def run_numeric(ctx, tmpdir, lines, expect):
    rng = ctx.rng
    for it in range(300 if ctx.quick else 4000):
        sc = Scenario(ctx, tmpdir)
        kind, cls, dts = rng.choice(numeric_classes())
        dtype = rng.choice(dts)
        path = rng.choice(["from_1d", "from_1d", "from_2d", "ctor", "load", "load"])
        copy = rng.random() < 0.5
        cast = rng.random() < 0.25
        pairs = []
        if path == "from_1d":
            sname, src, is_arr = sc.source_1d(dtype if not cast else rng.choice([d for d in (np.int32, np.float64, np.int16, np.complex128, np.float32) if d != dtype]))
            req = dtype if (cast or not is_arr or rng.random() < 0.5) else None
            sdt = src.dtype if is_arr else None
            if req is None and is_arr and src.dtype not in [np.dtype(d) for d in dts]:
                req = dtype
            n_src = len(src)
            s = rng.randint(0, n_src); n = rng.choice([None, rng.randint(0, n_src - s)])
            r = outcome(lambda: cls.from_array_1d(src, req, copy=copy, start_index=s, sample_count=n))
            oracle_construct(sc, f"{cls.__name__}.from_array_1d", src, is_arr, sdt, req, copy, r, lambda o: [Scenario.raw(o, kind)])
            rname = sc.fresh("R")
            dtag = DT[np.dtype(req)] if req is not None else "-"
            if r[0] == "ok":
                w = sc.fresh("W")
                raw = sc.raw(r[1], kind)
                full_dt = DT[raw.dtype]
                # the buffer: located through the whole-capacity view is not public; the window is what is compared
                sc.emit(f"asarray {rname} {sname} {dtag} {int(copy)}", ("prefix", "ok "))
                sc.objs[w] = (r[1], kind, 1)
                if raw.size:
                    c, idx = sc.mem.locate_or_register(raw)
                    sc.emit(f"adopt {w} {rname} 1 {s} {'-' if n is None else n}", ref_text(c, idx, full_dt))
                else:
                    sc.emit(f"adopt {w} {rname} 1 {s} {'-' if n is None else n}", ("prefix", "ok "))
                pairs.append((sname, w, (not copy) if is_arr else None))
            else:
                sc.emit(f"asarray {rname} {sname} {dtag} {int(copy)}", "err " + r[1])
        elif path == "from_2d":
            sname, src, is_arr = sc.source_2d(dtype)
            req = dtype if (not is_arr or rng.random() < 0.5) else None
            r = outcome(lambda: cls.from_array_2d(src, req, copy=copy))
            oracle_construct(sc, f"{cls.__name__}.from_array_2d", src, is_arr, src.dtype if is_arr else None, req, copy, r,
                             lambda ws: [Scenario.raw(w, kind) for w in ws])
            dtag = DT[np.dtype(req)] if req is not None else "-"
            if r[0] == "ok":
                for i, wobj in enumerate(r[1]):
                    if is_arr:
                        row = sc.view(sname, src[i])
                    else:
                        row = sc.fresh("L"); sc.emit(f"seq {row} {enc_ints(src[i])}", "ok")
                    rname, w = sc.fresh("R"), sc.fresh("W")
                    sc.emit(f"asarray {rname} {row} {dtag} {int(copy)}", ("prefix", "ok "))
                    sc.objs[w] = (wobj, kind, 1)
                    sc.expect_ref(f"adopt {w} {rname} 1 0 -", sc.raw(wobj, kind), DT[sc.raw(wobj, kind).dtype])
                    pairs.append((row, w, (not copy) if is_arr else None))
            elif is_arr and len(src):
                row = sc.view(sname, src[0]); rname = sc.fresh("R")
                sc.emit(f"asarray {rname} {row} {dtag} {int(copy)}", "err " + r[1])
        elif path == "ctor":
            sname, src, is_arr = sc.source_1d(dtype)
            if not is_arr:
                continue
            s = rng.randint(0, len(src)); n = rng.choice([None, rng.randint(0, len(src) - s)])
            r = outcome(lambda: cls(**{("data" if kind == "spectrum" else "raw_data"): src}, start_index=s, sample_count=n))
            if r[0] != "ok":
                sc.viol(what="raw_data constructor refused a valid array", observed=show(r)[:200], required="accepted")
                continue
            if sc.raw(r[1], kind).size and not np.shares_memory(sc.raw(r[1], kind), src):
                sc.viol(what="raw_data constructor copied the array it was given", observed="independent memory", required="adopts the array")
            w = sc.fresh("W")
            sc.objs[w] = (r[1], kind, 1)
            sc.expect_ref(f"adopt {w} {sname} 1 {s} {'-' if n is None else n}", sc.raw(r[1], kind), DT[src.dtype])
            pairs.append((sname, w, True))
        else:   # load_data on an existing object
            sname, src, is_arr = sc.source_1d(dtype)
            if not is_arr:
                continue
            whole = rng.random() < 0.4
            cap = len(src) if (whole and rng.random() < 0.7) else rng.randint(0, 6)
            wobj = cls(rng.choice([cap, rng.randint(0, cap)]), dtype, capacity=cap)
            own = sc.raw(wobj, kind)
            w = sc.fresh("W")
            # the object's own buffer is a fresh cell
            full = own
            base = full.base if full.base is not None else full
            a0 = sc.fresh("A")
            cell = sc.mem.add(base)
            sc.refs[a0] = None
            sc.emit(f"alloc {a0} {DT[np.dtype(dtype)]} {enc_ints([0] * cap)}", ref_text(cell, list(range(cap)), DT[np.dtype(dtype)]))
            sc.objs[w] = (wobj, kind, 1)
            sc.emit(f"adopt {w} {a0} 1 0 {len(own)}", ("prefix", "ok "))
            s = rng.randint(0, len(src)); n = rng.randint(0, len(src) - s)
            if whole:
                s, n = 0, len(src)
            r = outcome(lambda: wobj.load_data(src, copy=copy, start_index=s, sample_count=n))
            if r[0] != "ok":
                sc.viol(what="load_data refused a valid array", observed=show(r)[:200], required="accepted")
                continue
            raw = sc.raw(wobj, kind)
            sh = bool(raw.size) and np.shares_memory(raw, src)
            if copy and sh:
                sc.viol(what="load_data(copy=True) shares memory with the source", observed="shares", required="independent")
            if not copy and raw.size and not sh:
                sc.viol(what="load_data(copy=False) made a hidden copy", observed="independent", required="shares")
            sc.expect_ref(f"{'loadcopy' if copy else 'loadadopt'} {w} {sname} {s} {n}", raw, DT[raw.dtype])
            pairs.append((sname, w, not copy))
        if not sc.ok:
            return
        for w in list(sc.objs):
            sc.check_views(w)
        sc.check_values()
        # appends within capacity land in the buffer the object holds
        for w, (o, k2, nc) in list(sc.objs.items()):
            room = o.capacity - o.sample_count - o.start_index
            if room > 0 and rng.random() < 0.7:
                m = rng.randint(1, room)
                vals = [rng.randint(130, 200) for _ in range(m)]
                before = sc.snapshot()
                r = outcome(lambda: o.append(np.array(vals, o.dtype)))
                if r[0] == "ok":
                    sc.expect_ref(f"append {w} {enc_ints(vals)}", sc.raw(o, k2), DT[sc.raw(o, k2).dtype])
                    sc.judge(before, ("obj", w), pairs)
                    for sname, oname, shared in pairs:
                        if oname == w and shared is True and isinstance(sc.refs.get(sname), np.ndarray):
                            if not np.shares_memory(sc.refs[sname], sc.raw(o, k2)[-m:]):
                                sc.viol(what="samples appended within capacity did not land in the caller's memory", object=w,
                                        observed="appended samples live elsewhere", required="inside the adopted array")
                    ctx.count("append", "within-capacity")
        sc.check_values()
        sc.random_writes(pairs)
        # memory-mapped sources: what the file holds after flush is what the array shows
        for a in sc.mem.owners:
            if isinstance(a, np.memmap) and hasattr(a, "_verif_path"):
                a.flush()
                disk = np.fromfile(a._verif_path, dtype=a.dtype)
                if ints_of(disk) != ints_of(a):
                    sc.viol(what="memory-mapped file content differs from the mapped array after flush", observed=str(ints_of(disk)), required=str(ints_of(a)))
                ctx.count("memmap", "file re-read")
        lines += sc.lines; expect += sc.expect
        ctx.case(("numeric", it, kind, path, copy, cast), nontrivial=True)
        if not sc.ok:
            return


def run_digital(ctx, tmpdir, lines, expect):
    from nitypes.waveform import DigitalWaveform
    rng = ctx.rng
    for it in range(250 if ctx.quick else 3000):
        sc = Scenario(ctx, tmpdir)
        path = rng.choice(["lines1", "lines2", "lines2", "ctor", "load", "port", "ports", "regrow", "regrow"])
        copy = rng.random() < 0.5
        pairs = []
        if path == "regrow":
            # adopt (copy=False) an owning array, adopt another one with load_data(copy=False), then append past the capacity:
            # the array the object holds *now* is the one that grows (in place) and receives the samples
            def owner(nd):
                n = rng.randint(1, 4)
                return sc.new_owner(np.uint8, (n,) if nd == 1 else (n, 1))
            a1 = owner(rng.choice([1, 1, 2]))
            A1 = sc.refs[a1]
            first = rng.choice(["lines", "ctor", "sized"])
            if first == "sized":
                wobj = DigitalWaveform(rng.randint(0, 2), 1)
                w = sc.fresh("W"); a0 = sc.fresh("A")
                d0 = wobj.data
                base0 = d0.base if d0.base is not None else d0
                while isinstance(getattr(base0, "base", None), np.ndarray):
                    base0 = base0.base
                cell = sc.mem.add(base0)
                sc.refs[a0] = None
                sc.emit(f"alloc {a0} 6 {enc_ints([0] * wobj.capacity)}", ref_text(cell, list(range(wobj.capacity)), 6))
                sc.objs[w] = (wobj, "digital", 1)
                sc.emit(f"adopt {w} {a0} 1 0 {len(d0)}", ("prefix", "ok "))
            else:
                wobj = DigitalWaveform.from_lines(A1, copy=False) if first == "lines" else DigitalWaveform(data=A1)
                w = sc.fresh("W")
                sc.objs[w] = (wobj, "digital", 1)
                if first == "lines":
                    r0 = sc.fresh("R")
                    sc.emit(f"asarray {r0} {a1} - 0", ("prefix", "ok "))
                    sc.expect_ref(f"adopt {w} {r0} 1 0 -", wobj.data, 6)
                else:
                    sc.expect_ref(f"adopt {w} {a1} 1 0 -", wobj.data, 6)
            steps = rng.randint(1, 3)
            for _k in range(steps):
                a2 = owner(rng.choice([1, 2]))
                A2 = sc.refs[a2]
                n2 = len(A2)
                r = outcome(lambda: wobj.load_data(A2, copy=False))
                if r[0] != "ok":
                    sc.viol(what="load_data(copy=False) refused a valid array", observed=show(r)[:200], required="accepted"); break
                sc.expect_ref(f"loadadopt {w} {a2} 0 {n2}", wobj.data, 6)
                loaded = ints_of(A2)
                m = rng.randint(1, 3)
                vals = [rng.randint(1, 7) for _ in range(m)]
                mode = rng.choice(["append", "append", "capacity"])
                if mode == "append":
                    r = outcome(lambda: wobj.append(np.array(vals, np.uint8).reshape(m, 1) if rng.random() < 0.5 else np.array(vals, np.uint8)))
                    if r[0] != "ok":
                        sc.viol(what="append to a waveform holding an adopted owning array failed", observed=show(r)[:200], required="grows in place"); break
                    sc.expect_ref(f"appendg {w} {enc_ints(vals)}", wobj.data, 6)
                    sc.emit(f"bufref {a2} {w}", ("prefix", "ok "))
                    want = loaded + vals
                else:
                    r = outcome(lambda: setattr(wobj, "capacity", n2 + m))
                    if r[0] != "ok":
                        sc.viol(what="capacity growth of an adopted owning array failed", observed=show(r)[:200], required="grows in place"); break
                    sc.emit(f"appendg {w} {enc_ints([0] * m)}", ("prefix", "ok "))
                    sc.emit(f"bufref {a2} {w}", ("prefix", "ok "))
                    sc.emit(f"loadadopt {w} {a2} 0 {n2}", ("prefix", "ok "))     # window back to the loaded samples
                    want = loaded
                got = ints_of(wobj.data)
                if got != want:
                    sc.viol(what="after load_data(copy=False) and growth the waveform no longer shows the loaded samples", loaded=str(loaded),
                            observed=str(got), required=str(want))
                    break
                if not np.shares_memory(wobj.data, A2):
                    sc.viol(what="after load_data(copy=False) and growth the waveform no longer shares the caller's array", observed="independent memory",
                            required="the adopted array, resized in place")
                    break
                sc.check_values()
            ctx.count("digital-path", "regrow")
            lines += sc.lines; expect += sc.expect
            ctx.case(("digital", it, "regrow"), nontrivial=True)
            if not sc.ok:
                return
            continue
        if path in ("lines1", "lines2"):
            sname, src, is_arr = sc.source_1d(np.uint8) if path == "lines1" else sc.source_2d(np.uint8)
            cast = is_arr and rng.random() < 0.15
            req = None if (is_arr and not cast and rng.random() < 0.5) else (np.uint8 if not cast else np.bool_)
            if path == "lines2" and not is_arr:
                sname = None
            r = outcome(lambda: DigitalWaveform.from_lines(src, req, copy=copy))
            if is_arr and req is not None and np.dtype(req) != src.dtype:
                # a dtype that differs from the array's is refused outright (TypeError), copy or not
                if not (r[0] == "err" and r[1] in ("TypeError", "ValueError")):
                    sc.viol(what="from_lines with a different dtype", observed=show(r)[:200], required="refused")
                continue
            oracle_construct(sc, "DigitalWaveform.from_lines", src, is_arr, src.dtype if is_arr else None, req, copy, r, lambda o: [o.data])
            if sname is None:
                continue
            rname = sc.fresh("R")
            dtag = DT[np.dtype(req)] if req is not None else ("-" if is_arr else DT[np.dtype(np.uint8)])
            if r[0] == "ok":
                w = sc.fresh("W")
                nc = r[1].signal_count
                sc.emit(f"asarray {rname} {sname} {dtag} {int(copy)}", ("prefix", "ok "))
                sc.objs[w] = (r[1], "digital", nc)
                sc.expect_ref(f"adopt {w} {rname} {nc} 0 -", r[1].data, DT[r[1].data.dtype])
                pairs.append((sname, w, (not copy) if is_arr else None))
            else:
                sc.emit(f"asarray {rname} {sname} {dtag} {int(copy)}", "err " + r[1])
        elif path == "ctor":
            sname, src, is_arr = sc.source_2d(np.uint8)
            if not is_arr:
                continue
            r = outcome(lambda: DigitalWaveform(data=src))
            if r[0] != "ok":
                sc.viol(what="DigitalWaveform(data=) refused a valid array", observed=show(r)[:200], required="accepted")
                continue
            if r[1].data.size and not np.shares_memory(r[1].data, src):
                sc.viol(what="DigitalWaveform(data=) copied the array it was given", observed="independent", required="adopts")
            w = sc.fresh("W")
            sc.objs[w] = (r[1], "digital", r[1].signal_count)
            sc.expect_ref(f"adopt {w} {sname} {r[1].signal_count} 0 -", r[1].data, DT[src.dtype])
            pairs.append((sname, w, True))
        elif path == "load":
            sname, src, is_arr = sc.source_2d(np.uint8)
            if not is_arr:
                continue
            ncols = src.shape[1]
            whole = rng.random() < 0.4
            cap = len(src) if (whole and rng.random() < 0.7) else rng.randint(0, 5)
            wobj = DigitalWaveform(rng.choice([cap, rng.randint(0, cap)]), ncols, capacity=cap)
            w = sc.fresh("W")
            full = wobj.get_data(0, None)
            a0 = sc.fresh("A")
            base = full.base if full.base is not None else full
            while isinstance(getattr(base, "base", None), np.ndarray):
                base = base.base
            cell = sc.mem.add(base)
            sc.refs[a0] = None
            sc.emit(f"alloc {a0} 6 {enc_ints([0] * (cap * ncols))}", ref_text(cell, list(range(cap * ncols)), 6))
            sc.objs[w] = (wobj, "digital", ncols)
            sc.emit(f"adopt {w} {a0} {ncols} 0 {len(wobj.data)}", ("prefix", "ok "))
            s = rng.randint(0, len(src)); n = rng.randint(0, len(src) - s)
            if whole:
                s, n = 0, len(src)
            r = outcome(lambda: wobj.load_data(src, copy=copy, start_index=s, sample_count=n))
            if r[0] != "ok":
                sc.viol(what="load_data refused a valid array", observed=show(r)[:200], required="accepted")
                continue
            raw = wobj.data
            sh = bool(raw.size) and np.shares_memory(raw, src)
            if copy and sh:
                sc.viol(what="load_data(copy=True) shares memory with the source", observed="shares", required="independent")
            if not copy and raw.size and not sh:
                sc.viol(what="load_data(copy=False) made a hidden copy", observed="independent", required="shares")
            sc.expect_ref(f"{'loadcopy' if copy else 'loadadopt'} {w} {sname} {s} {n}", raw, 6)
            pairs.append((sname, w, not copy))
        else:
            # from_port(s): the data is always freshly allocated
            pdt = rng.choice([np.uint8, np.uint16])
            if path == "port":
                sname, src, is_arr = sc.source_1d(pdt)
                if not is_arr:
                    src = list(src); kw = dict(mask=0xFF)
                else:
                    kw = {}
                r = outcome(lambda: [DigitalWaveform.from_port(src, **kw)])
            else:
                sname, src, is_arr = sc.source_2d(pdt)
                if not is_arr:
                    continue
                r = outcome(lambda: list(DigitalWaveform.from_ports(src)))
            if r[0] != "ok":
                continue
            for wobj in r[1]:
                d = wobj.data
                c, _ = sc.mem.locate(d)
                if d.size and c is not None:
                    sc.viol(what="from_port data lies inside the caller's memory", observed=f"cell {c}", required="freshly allocated")
                if is_arr and d.size and np.shares_memory(d, src):
                    sc.viol(what="from_port data shares memory with the port array", observed="shares", required="freshly allocated")
                w, a0 = sc.fresh("W"), sc.fresh("A")
                if d.size:
                    c, idx = sc.mem.locate_or_register(d)
                    own = sc.mem.owners[c]
                    sc.refs[a0] = None
                    sc.emit(f"alloc {a0} 6 {enc_ints(ints_of(own))}", ref_text(c, list(range(own.size)), 6))
                    sc.objs[w] = (wobj, "digital", wobj.signal_count)
                    sc.emit(f"adopt {w} {a0} {wobj.signal_count} 0 -", ref_text(c, idx, 6))
                    pairs.append((sname, w, False if is_arr else None))
        if not sc.ok:
            return
        for w in list(sc.objs):
            sc.check_views(w)
        sc.check_values()
        sc.random_writes(pairs)
        lines += sc.lines; expect += sc.expect
        ctx.case(("digital", it, path, copy), nontrivial=True)
        if not sc.ok:
            return


def run_xy(ctx, tmpdir, lines, expect):
    from nitypes.xy_data import XYData
    rng = ctx.rng
    for it in range(150 if ctx.quick else 2000):
        sc = Scenario(ctx, tmpdir)
        dtype = rng.choice([np.float64, np.int32])
        copy = rng.random() < 0.5
        n = rng.randint(0, 5)
        pairs = []
        srcs = []
        for axis in "xy":
            kind = rng.choice(["own", "slice", "strided", "list"])
            if kind == "list":
                vals = [rng.randint(1, 40) for _ in range(n)]
                nm = sc.fresh("L"); sc.emit(f"seq {nm} {enc_ints(vals)}", "ok")
                srcs.append((nm, vals, False))
            else:
                a = sc.new_owner(dtype, (2 * n + 2,))
                A = sc.refs[a]
                v = A[:n] if kind == "own" else (A[1:1 + n] if kind == "slice" else A[0:2 * n:2])
                srcs.append((sc.view(a, v), v, True))
        (xn, x, xa), (yn, y, ya) = srcs
        if rng.random() < 0.3 and xa and ya:
            r = outcome(lambda: XYData(x, y))
            if r[0] != "ok":
                sc.viol(what="XYData refused valid arrays", observed=show(r)[:200], required="accepted"); return
            if r[1].x_data is not x or r[1].y_data is not y:
                sc.viol(what="XYData(x, y) does not hold the arrays it was given", observed="other arrays", required="the same objects")
            for nm, real, tag in ((xn, r[1].x_data, "X"), (yn, r[1].y_data, "Y")):
                w = sc.fresh("W" + tag)
                sc.objs[w] = (real, "axis", 1)
                sc.expect_ref(f"adopt {w} {nm} 1 0 -", real, DT[real.dtype])
                pairs.append((nm, w, True))
        else:
            cast = rng.random() < 0.2
            req = (np.float32 if cast else dtype) if (cast or not (xa and ya) or rng.random() < 0.5) else None
            r = outcome(lambda: XYData.from_arrays_1d(x, y, req, copy=copy))
            needs = (not xa) or (not ya) or (req is not None and np.dtype(req) != np.dtype(dtype))
            if not copy and needs:
                if not (r[0] == "err" and r[1] == "ValueError"):
                    sc.viol(what="from_arrays_1d: a no-copy request that needs a copy did not raise ValueError", observed=show(r)[:200], required="ValueError")
                # which argument fails first is x
                first = xn if ((not xa) or (req is not None and np.dtype(req) != np.dtype(dtype))) else yn
                if (not xa) or (req is not None and np.dtype(req) != np.dtype(dtype)):
                    sc.emit(f"asarray {sc.fresh('R')} {xn} {DT[np.dtype(req)] if req is not None else '-'} 0", "err ValueError")
                continue
            if r[0] != "ok":
                sc.viol(what="from_arrays_1d refused valid input", observed=show(r)[:200], required="accepted"); return
            for nm, real, src, isarr, tag in ((xn, r[1].x_data, x, xa, "X"), (yn, r[1].y_data, y, ya, "Y")):
                if isarr and real.size:
                    sh = np.shares_memory(real, src)
                    if copy and sh:
                        sc.viol(what="from_arrays_1d(copy=True) shares memory with the source", observed="shares", required="independent")
                    if not copy and not sh:
                        sc.viol(what="from_arrays_1d(copy=False) made a hidden copy", observed="independent", required="shares")
                rname, w = sc.fresh("R"), sc.fresh("W" + tag)
                sc.emit(f"asarray {rname} {nm} {DT[np.dtype(req)] if req is not None else '-'} {int(copy)}", ("prefix", "ok "))
                sc.objs[w] = (real, "axis", 1)
                sc.expect_ref(f"adopt {w} {rname} 1 0 -", real, DT[real.dtype])
                pairs.append((nm, w, (not copy) if isarr else None))
        if not sc.ok:
            return
        sc.check_values()
        sc.random_writes(pairs)
        lines += sc.lines; expect += sc.expect
        ctx.case(("xy", it, copy), nontrivial=True)
        if not sc.ok:
            return


def run_shim(ctx):
    """the NumPy 1.x asarray shim obeys the same rule (it is what runs under NumPy 1.x)"""
    from nitypes import _numpy1x
    rng = ctx.rng
    for it in range(200 if ctx.quick else 3000):
        base = np.arange(1, 11, dtype=rng.choice([np.int32, np.float64]))
        kind = rng.choice(["own", "slice", "strided", "reversed", "list", "tuple"])
        src = {"own": base, "slice": base[2:7], "strided": base[::3], "reversed": base[::-1], "list": [1, 2, 3], "tuple": (4, 5)}[kind]
        is_arr = isinstance(src, np.ndarray)
        req = rng.choice([None, np.int32, np.float64])
        copy = rng.choice([True, False])
        r = outcome(lambda: _numpy1x.asarray(src, req, copy=copy))
        ref = outcome(lambda: np.asarray(src, req, copy=copy))
        needs = (not is_arr) or (req is not None and np.dtype(req) != src.dtype)
        ctx.case(("shim", kind, str(req), copy))
        if copy is False and needs:
            ok = r[0] == "err" and r[1] == "ValueError"
        elif r[0] != "ok":
            ok = False
        elif copy:
            ok = not (is_arr and np.shares_memory(r[1], src)) and r[1].tolist() == list(np.asarray(src, req).tolist())
        else:
            ok = r[1] is src
        if not ok or (r[0] != ref[0]):
            ctx.violation(what="NumPy 1.x asarray shim breaks the copy rule", source=kind, dtype=str(req), copy=copy, observed=show(r)[:200],
                          required="ValueError" if (copy is False and needs) else ("independent copy" if copy else "the same array"))
            return
    # ---- the generated shim (Gen/AsarrayShim.lean, T26) against the real one: every source kind x requested dtype x copy flag -------
    import tempfile
    DTN = {np.dtype(np.int32): 4, np.dtype(np.float64): 8}
    glines, gwant, gwhat = [], [], []
    with tempfile.TemporaryDirectory(prefix="niverif_shim_") as td:
        for sdt in (np.int32, np.float64):
            base = np.arange(1, 11, dtype=sdt)
            mm = np.memmap(os.path.join(td, f"m{np.dtype(sdt).name}"), dtype=sdt, mode="w+", shape=(6,))
            mm[:] = np.arange(6)

            class Sub(np.ndarray):
                pass

            sources = [("own", base, "arr", 0, 1), ("slice", base[2:7], "arr", 0, 0), ("strided", base[::3], "arr", 0, 0), ("reversed", base[::-1], "arr", 0, 0),
                       ("memmap", mm, "arr", 1, 0), ("memmap-slice", mm[1:4], "arr", 1, 0), ("subclass", base.view(Sub), "arr", 1, 0),
                       ("list", [1, 2, 3], "seq", 0, 0), ("tuple", (4, 5), "seq", 0, 0), ("empty-list", [], "seq", 0, 0)]
            for kind, src, k, sub, owns in sources:
                for req in (None, np.int32, np.float64):
                    for copy in (True, False, None):
                        r = outcome(lambda: _numpy1x.asarray(src, req, copy=copy))
                        ref = outcome(lambda: np.asarray(src, req, copy=copy))
                        def cls_(o):
                            if o[0] != "ok":
                                return "err " + o[1]
                            return "shares" if (isinstance(src, np.ndarray) and np.shares_memory(o[1], src)) or (isinstance(src, np.ndarray) and src.size == 0 and o[1] is src) else "fresh"
                        got = cls_(r)
                        ctx.case(("shim-gen", kind, str(req), copy))
                        if got != cls_(ref):
                            ctx.violation(what="NumPy 1.x asarray shim and NumPy 2's asarray disagree on sharing", source=kind, dtype=str(req), copy=copy,
                                          observed=got, required=cls_(ref))
                            return
                        glines.append(f"gshim {k} {DTN[np.dtype(sdt)] if k == 'arr' else 0} {DTN[np.dtype(req)] if req is not None else '-'} "
                                      f"{'-' if copy is None else int(copy)} {sub} {owns}")
                        gwant.append(got)
            del mm
    gres = ctx.model(glines, driver="drivers/AsarrayShim.lean")
    for q, want, got in zip(glines, gwant, gres or []):
        if got != want:
            ctx.mismatch(stream="generated NumPy 1.x asarray shim (T26)", request=q, model_says=got, code_says=want)
            break
    ctx.extra["generated_shim_lines"] = len(glines)
    ctx.evaluations += len(glines)


def run_props_timing(ctx, lines, expect):
    from nitypes.scalar import Scalar
    from nitypes.vector import Vector
    from nitypes.xy_data import XYData
    from nitypes.waveform import AnalogWaveform, ComplexWaveform, Spectrum, DigitalWaveform, ExtendedPropertyDictionary, Timing, SampleIntervalMode
    makers = {
        "Scalar": lambda **kw: Scalar(1.0, **kw), "Vector": lambda **kw: Vector([1, 2], **kw),
        "XYData": lambda **kw: XYData(np.zeros(2), np.zeros(2), **kw),
        "AnalogWaveform": lambda **kw: AnalogWaveform(2, **kw), "ComplexWaveform": lambda **kw: ComplexWaveform(2, **kw),
        "Spectrum": lambda **kw: Spectrum(2, **kw), "DigitalWaveform": lambda **kw: DigitalWaveform(2, 2, **kw),
    }
    lines.append("reset"); expect.append("ok")
    cellno = 0
    for name, mk in makers.items():
        for argkind in ("dict", "epd"):
            for flag in (True, False, "default"):
                arg = {"a": 1, "b": 2}
                if argkind == "epd":
                    arg = ExtendedPropertyDictionary(arg)
                kw = dict(extended_properties=arg)
                if flag != "default":
                    kw["copy_extended_properties"] = flag
                o = mk(**kw)
                share_expected = (flag is False and argkind == "epd")
                shared = o.extended_properties is arg
                ctx.case(("props", name, argkind, str(flag)))
                if shared != share_expected:
                    ctx.violation(what="extended_properties copy rule", cls=name, argument=argkind, copy_extended_properties=str(flag),
                                  observed="shared" if shared else "copied", required="shared" if share_expected else "copied")
                    return
                arg["a"] = 77
                seen = o.extended_properties["a"]
                o.extended_properties["b"] = 88
                back = arg["b"]
                if (seen == 77) != share_expected or (back == 88) != share_expected:
                    ctx.violation(what="extended_properties writes visible/invisible against the copy rule", cls=name, argument=argkind,
                                  copy_extended_properties=str(flag), observed=f"object sees {seen}, caller sees {back}",
                                  required="both visible" if share_expected else "neither visible")
                    return
                src = f"D{cellno}"
                lines.append(f"alloc {src} 0 1,2"); expect.append(ref_text(cellno, [0, 1], 0)); mycell = cellno; cellno += 1
                lines.append(f"share E{mycell} {src} {int(argkind == 'epd')} {int(flag is not False)}")
                if shared:
                    expect.append(ref_text(mycell, [0, 1], 0))
                else:
                    expect.append(ref_text(cellno, [0, 1], 0)); cellno += 1
                lines.append(f"wref {src} 0 77"); expect.append("ok")
                lines.append(f"wref E{mycell} 1 88"); expect.append("ok")
                lines.append(f"read E{mycell}"); expect.append(f"ok {seen},88")
                lines.append(f"read {src}"); expect.append(f"ok 77,{back}")
    # the copy rule also holds for the writes the library makes itself: an append merges the source's properties into the
    # receiver's dictionary; siblings built from the same argument and the caller's mapping see that exactly when they share it
    for name in ("AnalogWaveform", "ComplexWaveform", "Spectrum", "DigitalWaveform"):
        mk = makers[name]
        for argkind in ("dict", "epd"):
            for flag in (True, False, "default"):
                for touched in (False, True):
                    arg = {"a": 1}
                    if argkind == "epd":
                        arg = ExtendedPropertyDictionary(arg)
                    kw = dict(extended_properties=arg)
                    if flag != "default":
                        kw["copy_extended_properties"] = flag
                    o, sib = mk(**kw), mk(**kw)
                    if touched:
                        _ = dict(o.extended_properties), dict(sib.extended_properties)
                        o.extended_properties["t"] = 0
                    other = mk(extended_properties={"probe": "p", "serial": 7, "NI_LineNames": "x, y"})
                    r = outcome(o.append, other)
                    share_expected = (flag is False and argkind == "epd")
                    ctx.case(("props-merge", name, argkind, str(flag), touched))
                    if r[0] != "ok" or "probe" not in o.extended_properties:
                        ctx.violation(what="append did not merge the source's properties", cls=name, observed=show(r)[:120], required="merged")
                        return
                    leaked_sib = "probe" in sib.extended_properties
                    leaked_arg = "probe" in arg
                    if leaked_sib != share_expected or leaked_arg != share_expected:
                        ctx.violation(what="properties merged by append reached another holder against the copy rule", cls=name, argument=argkind,
                                      copy_extended_properties=str(flag), written_before=touched,
                                      observed=f"sibling sees merged keys: {leaked_sib}, caller's mapping sees them: {leaked_arg}",
                                      required=f"both {share_expected}")
                        return
    t0 = dt.datetime(2025, 1, 1)
    for seqkind in ("list", "tuple"):
        for flag in (True, False, "default", "named"):
            stamps = [t0 + dt.timedelta(seconds=i) for i in range(3)]
            arg = stamps if seqkind == "list" else tuple(stamps)
            if flag == "named":
                t = Timing.create_with_irregular_interval(arg)
            else:
                kw = {} if flag == "default" else {"copy_timestamps": flag}
                t = Timing(SampleIntervalMode.IRREGULAR, timestamps=arg, **kw)
            share_expected = flag is False and seqkind == "list"
            if seqkind == "list":
                arg[0] = t0 - dt.timedelta(days=1)
                got = list(t.get_timestamps(0, 3))
                visible = got[0] == arg[0]
                ctx.case(("timing", seqkind, str(flag)))
                if visible != share_expected:
                    ctx.violation(what="Timing timestamp copy rule", sequence=seqkind, copy_timestamps=str(flag),
                                  observed="shares the caller's list" if visible else "copied", required="shared" if share_expected else "copied")
                    return
            else:
                got = list(t.get_timestamps(0, 3))
                if got != stamps:
                    ctx.violation(what="Timing timestamps from a tuple", observed=str(got), required=str(stamps))
                    return

    # timestamp lists that reach a Timing through append(array, timestamps) - receivers with no timestamps yet (the start of a streaming
    # acquisition), with some, of every class; the caller's list is the caller's: mutating, clearing, reversing or refilling it afterwards
    # is not seen by the waveform, and the waveform never touches it
    from nitypes.waveform import AnalogWaveform as _AW, ComplexWaveform as _CW, DigitalWaveform as _DW
    for cls_, mkarr in ((_AW, lambda n_: np.arange(n_, dtype=np.float64)), (_CW, lambda n_: np.arange(n_).astype(np.complex128)), (_DW, lambda n_: np.zeros((n_, 1), np.uint8))):
        for have in (0, 2):
            for seqkind in ("list", "tuple-then-list"):
                for edit in ("setitem", "clear-refill", "reverse", "append"):
                    first = [t0 + dt.timedelta(seconds=i) for i in range(have)]
                    if cls_ is _DW:
                        w_ = _DW(have, 1, timing=Timing.create_with_irregular_interval(first))
                    else:
                        w_ = cls_(have, np.float64 if cls_ is _AW else np.complex128, timing=Timing.create_with_irregular_interval(first), capacity=16)
                    scratch = [t0 + dt.timedelta(seconds=10 + i) for i in range(3)]
                    given = scratch if seqkind == "list" else list(tuple(scratch))
                    want = first + list(given)
                    r = outcome(lambda: w_.append(mkarr(3), given))
                    ctx.case(("append-timestamps-list", cls_.__name__, have, seqkind, edit))
                    if r[0] != "ok":
                        continue
                    if edit == "setitem": given[1] = t0 - dt.timedelta(days=1)
                    elif edit == "clear-refill": given.clear(); given.extend(t0 + dt.timedelta(seconds=100 + i) for i in range(3))
                    elif edit == "reverse": given.reverse()
                    else: given.append(t0)
                    got = outcome(lambda: list(w_.timing.get_timestamps(0, w_.sample_count)))
                    if got != ("ok", want):
                        ctx.violation(what="timestamps given to append(array, timestamps) are shared with the caller's list", cls=cls_.__name__, receiver_timestamps=have, caller_edit=edit,
                                      observed=show(got)[:200], required=str(want)[:200])
                        return


def run_byte_order(ctx):
    """Arrays in the non-native byte order are arrays like any other: copy=False shares the caller's memory (or the call is refused),
    copy=True does not; values are the same numbers.  Judged on the real objects only (the heap model has no byte order)."""
    from nitypes.waveform import AnalogWaveform, ComplexWaveform, Spectrum
    from nitypes.xy_data import XYData
    n = 0
    for cls, kind, dts in ((AnalogWaveform, "analog", [np.int16, np.int32, np.float32, np.float64]), (ComplexWaveform, "complex", [np.complex64, np.complex128]),
                           (Spectrum, "spectrum", [np.float32, np.float64])):
        for dty in dts:
            for order in ("swapped", "native", "unaligned", "packed-record-field"):
                for path in ("from_1d", "from_1d-dtype", "ctor", "from_2d", "load"):
                    for copy in (False, True):
                        vals = np.arange(1, 7).astype(dty)
                        if order == "swapped":
                            src = vals.astype(vals.dtype.newbyteorder())
                        elif order == "unaligned":
                            # memory that does not start on a multiple of the item size (a field behind a one-byte header in a buffer)
                            _buf = bytearray(1 + vals.nbytes)
                            src = np.frombuffer(_buf, dty, count=6, offset=1)
                            src[:] = vals
                        elif order == "packed-record-field":
                            _rec = np.zeros(6, np.dtype([("tag", "u1"), ("value", dty)], align=False))
                            _rec["value"] = vals
                            src = _rec["value"]
                        else:
                            src = vals.copy()
                        keep = src.copy()
                        raw = lambda w: (w.data if kind == "spectrum" else w.raw_data)
                        if path == "from_1d":
                            o = outcome(lambda: [cls.from_array_1d(src, copy=copy)])
                        elif path == "from_1d-dtype":
                            o = outcome(lambda: [cls.from_array_1d(src, src.dtype, copy=copy)])
                        elif path == "ctor":
                            if copy:
                                continue
                            o = outcome(lambda: [cls(**{("data" if kind == "spectrum" else "raw_data"): src})])
                        elif path == "from_2d":
                            src = src.reshape(2, 3); keep = src.copy()
                            o = outcome(lambda: list(cls.from_array_2d(src, copy=copy)))
                        else:
                            def ld():
                                w = cls(0, src.dtype)
                                w.load_data(src, copy=copy)
                                return [w]
                            o = outcome(ld)
                        n += 1
                        ctx.case(("byte-order", cls.__name__, str(np.dtype(dty)), order, path, copy))
                        ctx.count("byte-order", order)
                        if o[0] != "ok":
                            if order == "native":
                                ctx.violation(what="a native array was refused", cls=cls.__name__, path=path, copy=copy, dtype=str(src.dtype), observed=show(o)[:160], required="accepted")
                            continue        # a refusal of the other byte order is not an aliasing question
                        ws = o[1]
                        got = np.concatenate([np.asarray(raw(w)).astype(dty) for w in ws]) if ws else np.array([], dty)
                        shares = all(np.shares_memory(raw(w), src) for w in ws if raw(w).size)
                        if not np.array_equal(got, keep.reshape(-1).astype(dty)):
                            ctx.violation(what="values changed on the way in", cls=cls.__name__, path=path, copy=copy, dtype=str(src.dtype), observed=str(got)[:120], required=str(keep.reshape(-1))[:120])
                        elif copy and shares:
                            ctx.violation(what="copy=True shares memory with the source", cls=cls.__name__, path=path, dtype=str(src.dtype), observed="shares memory", required="independent")
                        elif not copy and not shares:
                            ctx.violation(what="copy=False made a hidden copy", cls=cls.__name__, path=path, dtype=str(src.dtype), observed="independent memory (writes do not reach the caller's array)",
                                          required="shares the caller's buffer, or ValueError")
                        elif not copy:
                            # writes are visible both ways
                            first = raw(ws[0])
                            first[0] = 77
                            src.reshape(-1)[1] = 55
                            if src.reshape(-1)[0] != 77 or first[1] != 55:
                                ctx.violation(what="copy=False: a write is not visible on the other side", cls=cls.__name__, path=path, dtype=str(src.dtype),
                                              observed=f"source {src.reshape(-1)[:2]}, waveform {first[:2]}", required="[77 55] on both sides")
    ctx.extra["byte_order_cases"] = n


def run_buffer_sources(ctx):
    """Sources that are Python sequences AND export a buffer (bytearray, array.array, memoryview): copy=True never shares them,
    whatever conversion shortcut NumPy offers; and a waveform that lives on memory it does not own never ADOPTS the argument of a
    load_data(copy=True) - it copies into its buffer or refuses."""
    import array
    from nitypes.waveform import AnalogWaveform, ComplexWaveform, DigitalWaveform, Spectrum
    n = 0
    for kind, mk in (("bytearray", lambda: bytearray([1, 0, 1, 1, 0, 1])), ("array.array('B')", lambda: array.array("B", [1, 0, 1, 1, 0, 1])),
                     ("memoryview", lambda: memoryview(bytearray([1, 0, 1, 1, 0, 1]))), ("array.array('b')", lambda: array.array("b", [1, 0, 1, 1, 0, 1]))):
        for dtype in (None, np.uint8, np.int8, np.bool_):
            for copy in (True, "default"):
                src = mk()
                kw = {} if copy == "default" else {"copy": True}
                r = outcome(lambda: DigitalWaveform.from_lines(src, dtype, **kw))
                n += 1
                ctx.case(("buffer-source", kind, str(dtype), str(copy)))
                if r[0] != "ok":
                    continue
                w = r[1]
                before = w.data.copy()
                try:
                    src[0] = 0 if before.reshape(-1)[0] else 1
                except TypeError:
                    continue
                if not np.array_equal(w.data, before) or np.shares_memory(np.asarray(src), w.data):
                    ctx.violation(what="from_lines(copy=True) shares memory with a buffer-exporting source", source=kind, dtype=str(dtype), copy=str(copy),
                                  observed="a write to the source changed the waveform", required="independent")
    for dty, a_src in ((np.float64, "d"), (np.int32, "i"), (np.int16, "h")):
        for copy in (True, "default"):
            src = array.array(a_src, [1, 2, 3, 4])
            kw = {} if copy == "default" else {"copy": True}
            r = outcome(lambda: AnalogWaveform.from_array_1d(src, dty, **kw))
            n += 1
            ctx.case(("buffer-source", "array.array", str(dty), str(copy)))
            if r[0] == "ok":
                src[0] = 99
                if r[1].raw_data[0] == 99:
                    ctx.violation(what="from_array_1d(copy=True) shares memory with an array.array source", dtype=str(dty), observed="shared", required="independent")
    # every 1-D factory x every buffer-exporting sequence whose item type IS the requested dtype (the case in which a conversion can hand
    # the caller's memory back unchanged): copy=True / default never shares, a write to the source afterwards is not seen
    from nitypes.xy_data import XYData
    facts = [("AnalogWaveform.from_array_1d", lambda src, dty, kw: [AnalogWaveform.from_array_1d(src, dty, **kw).raw_data]),
             ("Spectrum.from_array_1d", lambda src, dty, kw: [Spectrum.from_array_1d(src, dty, **kw).data]),
             ("XYData.from_arrays_1d (x)", lambda src, dty, kw: [XYData.from_arrays_1d(src, [0] * len(src), dty, **kw).x_data]),
             ("XYData.from_arrays_1d (y)", lambda src, dty, kw: [XYData.from_arrays_1d([0] * len(src), src, dty, **kw).y_data]),
             ("XYData.from_arrays_1d (both)", lambda src, dty, kw: (lambda o: [o.x_data, o.y_data])(XYData.from_arrays_1d(src, src, dty, **kw)))]
    for dty, code in ((np.float64, "d"), (np.float32, "f"), (np.int32, "i"), (np.int16, "h"), (np.uint8, "B"), (np.int64, "q")):
        for skind in ("array.array", "memoryview", "bytearray"):
            if skind == "bytearray" and code != "B":
                continue
            for copy in (True, "default"):
                for fname, f in facts:
                    base = array.array(code, [1, 2, 3, 4])
                    src = base if skind == "array.array" else memoryview(base) if skind == "memoryview" else bytearray([1, 2, 3, 4])
                    kw = {} if copy == "default" else {"copy": True}
                    r = outcome(lambda: f(src, dty, kw))
                    n += 1
                    ctx.case(("buffer-source-1d", fname, skind, str(np.dtype(dty)), str(copy)))
                    if r[0] != "ok":
                        continue
                    before = [a.copy() for a in r[1]]
                    if skind == "bytearray": src[0] = 99
                    else: base[0] = 99
                    probe = np.frombuffer(src, dty) if skind != "memoryview" else np.frombuffer(base, dty)
                    if any(not np.array_equal(a, b) for a, b in zip(r[1], before)) or any(np.shares_memory(a, probe) for a in r[1]):
                        ctx.violation(what="a copying factory shares memory with a buffer-exporting sequence", factory=fname, source=skind, dtype=str(np.dtype(dty)), copy=str(copy),
                                      observed="a write to the source changed the object / shares memory", required="independent")
    # load_data(copy=True) into a waveform whose buffer is borrowed (cannot grow): copy into it when it fits, otherwise refuse or allocate - never adopt
    for cls, key, dty in ((AnalogWaveform, "raw_data", np.float64), (ComplexWaveform, "raw_data", np.complex128), (Spectrum, "data", np.float64), (DigitalWaveform, "data", np.uint8)):
        for backing in ("slice-view", "2d-row", "frombuffer"):
            for n_load in (2, 3, 6):
                base = (np.arange(10) % 2).astype(dty)
                if backing == "slice-view":
                    view = base[2:5]
                elif backing == "2d-row":
                    view = (np.arange(12) % 2).astype(dty).reshape(4, 3)[1]
                else:
                    view = np.frombuffer(bytearray(base[:3].tobytes()), dty)
                r = outcome(lambda: cls(**{key: view.reshape(-1, 1) if cls is DigitalWaveform else view}))
                if r[0] != "ok":
                    continue
                w = r[1]
                arg = ((np.arange(n_load) + 1) % 2).astype(dty)
                if cls is DigitalWaveform:
                    arg = arg.reshape(-1, 1)
                o = outcome(w.load_data, arg)            # copy=True is the default
                n += 1
                ctx.case(("load-into-borrowed", cls.__name__, backing, n_load))
                raw = getattr(w, key)
                if o[0] == "ok" and raw.size and np.shares_memory(raw, arg):
                    ctx.violation(what="load_data(copy=True) made the waveform share memory with its argument", cls=cls.__name__, buffer=backing, loaded=n_load,
                                  capacity=len(view), observed="shares memory with the loaded array", required="a copy (or a refusal when the borrowed buffer cannot grow)")
    ctx.extra["buffer_source_cases"] = n


def run(ctx):
    import warnings
    lines, expect = [], []
    tmpdir = tempfile.mkdtemp(prefix="niverif-c12-")
    try:
        with warnings.catch_warnings():
            warnings.simplefilter("ignore")
            run_numeric(ctx, tmpdir, lines, expect)
            run_digital(ctx, tmpdir, lines, expect)
            run_xy(ctx, tmpdir, lines, expect)
            run_shim(ctx)
            run_byte_order(ctx)
            run_buffer_sources(ctx)
            run_props_timing(ctx, lines, expect)
        res = ctx.model(lines)
        if res is not None:
            for q, want, got in zip(lines, expect, res):
                bad = (not got.startswith(want[1]) and want[1] not in got) if isinstance(want, tuple) else got != want
                if bad:
                    ctx.mismatch(stream="heap " + q.split()[0], request=q[:300], model_says=got[:300], code_says=str(want)[:300])
                    break
    finally:
        import gc
        gc.collect()
        shutil.rmtree(tmpdir, ignore_errors=True)
    ctx.extra["model_lines_compared"] = len(lines)
    ctx.evaluations += len(lines)
    for q, e in list(zip(lines, expect))[:3000:300]:
        ctx.sample({"request": q[:120], "response": str(e)[:120]})


def replay(doc):
    print(doc.get("input"))
    return 0
