"""C18 — Vector is a homogeneous typed list: list semantics, one item type, nothing lost."""
from __future__ import annotations

from props.common import outcome, show

PID = "C18"
LEAN_MODULE = "NiVerif.Props.C18"
NAMESPACE = "Props.C18"
DRIVER = "drivers/C18.lean"
GEN_MODULES = ["Vector"]
EXTRA_LEAN_MODULES = ["NiVerif.Model.Vector", "NiVerif.Model.VectorArgs"]
THEOREMS = ["ctor_items", "ctor_rejects_mixed", "setItem_spec", "insert_spec", "mem_scatter", "setSlice_spec", "delete_keeps",
            "extend_spec", "remove_keeps", "type_inv_step", "type_inv", "eq_spec",
            "gen_setitem_int_eq_model", "gen_setitem_slice_eq_model", "gen_setitem_slice_nonscalar", "gen_setitem_slice_refuses", "gen_insert_eq_model", "gen_delitem_eq_model", "gen_delslice_eq_model",
            "gen_ctor_eq_model", "gen_ctor_refuses_other_value_type", "gen_ctor_refuses_non_iterable"]
RULE = ("Vectors built from lists, tuples, ranges, generators and other one-shot iterators of the four scalar types (incl. "
        "bool-in-int mixtures and offending items at every position), then seeded operation sequences (int and slice "
        "assignment with re-iterable and one-shot replacement iterables, deletion, insert, append, extend, +=, pop, remove, "
        "reverse, clear) with valid and wrong-typed values; every step is applied to the real Vector, to a real Python list "
        "(accepted operations only) and to Model/Vector.lean; element lists, element types, value type and the error class "
        "are compared")
TRUSTED = ["hand model NiVerif/Model/Vector.lean over Py/ListSpec.lean (tie: step-by-step correspondence; the list "
           "specification itself is tested against Python lists under C17)"]
ASSUMPTIONS = ["values are represented by (type, payload); numeric payloads are small integers so that Python's cross-type "
               "numeric equality is payload equality", "extend / += are sequences of single appends (DESIGN.md §10)"]

TYPES = {"b": bool, "i": int, "f": float, "s": str}


def enc(x):
    if isinstance(x, bool): return f"b{int(x)}"
    if isinstance(x, int): return f"i{x}"
    if isinstance(x, float): return f"f{int(x)}"
    if isinstance(x, str): return f"s{int(x)}"
    return "x0"


def snap(v):
    return f"{v._value_type.__name__} [" + ",".join(enc(x) for x in v) + "]"


def fmt(x):
    return "-" if x is None else str(x)


class Idx:
    """an index-like object that is not an int"""
    def __init__(self, i): self.i = int(i)
    def __index__(self): return self.i


def run(ctx):
    import numpy as np
    from nitypes.vector import Vector
    rng = ctx.rng
    lines, expect = [], []

    def val(t):
        n = rng.randint(0, 3)
        return {"b": bool(n % 2), "i": n, "f": float(n), "s": str(n), "x": None}[t]

    def src_kind(items):
        k = rng.choice(["list", "tuple", "gen", "iter", "range", "vector", "vector"])
        if k == "vector":
            # another Vector as the source (its own value type may be a different one)
            try:
                return Vector(list(items)), k
            except Exception:  # noqa: BLE001 - mixed or empty items: no Vector can hold them
                return list(items), "list"
        if k == "list": return list(items), k
        if k == "tuple": return tuple(items), k
        if k == "gen": return (x for x in items), k
        if k == "iter": return iter(list(items)), k
        if all(isinstance(x, int) and not isinstance(x, bool) for x in items) and items == list(range(len(items))):
            return range(len(items)), k
        return list(items), "list"

    # units are part of a Vector's value (== compares element lists and units): a vector built from another vector's
    # extended properties (copied by default) has its own units
    for items in ([1, 2, 3], [True], ["a", "b"], [1.5]):
        for how in ("epd", "dict", "epd-iter"):
            v1 = Vector(list(items), "volts")
            src = v1.extended_properties if how != "dict" else dict(v1.extended_properties)
            v2 = Vector(iter(list(items)) if how == "epd-iter" else list(items), extended_properties=src)
            same_before = (v1 == v2)
            v2.units = "amps"
            ctx.case(("units-independent", str(items), how))
            if not same_before or v1.units != "volts" or v2.units != "amps" or (v1 == v2) or dict(v1.extended_properties).get("NI_UnitDescription") != "volts":
                ctx.violation(what="assigning the units of one Vector changed another Vector (shared property storage)", items=str(items), how=how,
                              observed=f"v1.units={v1.units!r} v2.units={v2.units!r} equal={v1 == v2}", required="v1 volts, v2 amps, not equal")
    # the whole table target value type x item type x kind of container that delivers the items x operation: accepted exactly when
    # every item is an instance of the target's value type (bool items in an int vector: yes; int items in a bool vector: no)
    SAMPLE = {"b": [True, False], "i": [7, 8], "f": [1.5, 2.5], "s": ["p", "q"]}
    def containers(items):
        out = [("list", list(items)), ("tuple", tuple(items)), ("generator", (x for x in items)), ("iterator", iter(list(items))), ("map", map(lambda x: x, list(items))),
               ("dict-keys", dict.fromkeys(items).keys())]
        try:
            out.append(("vector", Vector(list(items))))
        except Exception:  # noqa: BLE001
            pass
        return out
    for tt in "bifs":
        for st_ in "bifs":
            ok_expected = all(isinstance(x, TYPES[tt]) for x in SAMPLE[st_])
            for cname, _c in containers(SAMPLE[st_]):
                for opn in ("setslice", "setslice-empty-selection", "extend", "iadd", "setslice-step"):
                    cont = dict(containers(SAMPLE[st_]))[cname]
                    v = Vector(list(SAMPLE[tt]))
                    before = list(v)
                    if opn == "setslice": r = outcome(lambda: v.__setitem__(slice(0, 1), cont)); want = SAMPLE[st_] + before[1:]
                    elif opn == "setslice-empty-selection": r = outcome(lambda: v.__setitem__(slice(1, 1), cont)); want = before[:1] + SAMPLE[st_] + before[1:]
                    elif opn == "setslice-step": r = outcome(lambda: v.__setitem__(slice(None, None, 1), cont)); want = list(SAMPLE[st_])
                    elif opn == "extend": r = outcome(lambda: v.extend(cont)); want = before + SAMPLE[st_]
                    elif opn == "iadd":
                        def f():
                            w_ = v; w_ += cont
                        r = outcome(f); want = before + SAMPLE[st_]
                    else:
                        r = outcome(lambda: Vector(cont, value_type=TYPES[tt])); want = list(SAMPLE[st_])
                    got = list(r[1]) if (opn == "ctor-after" and r[0] == "ok") else list(v)
                    ctx.case(("type-table", tt, st_, cname, opn))
                    if ok_expected:
                        if r[0] != "ok" or got != want or [type(x) for x in got] != [type(x) for x in want]:
                            ctx.violation(what="items of the value type were refused / changed", target=TYPES[tt].__name__, items=str(SAMPLE[st_]), container=cname, op=opn,
                                          observed=show(r)[:120] if r[0] != "ok" else str(got), required=str(want))
                    else:
                        stored = [x for x in got if not isinstance(x, TYPES[tt])]
                        if not (r[0] == "err" and r[1] == "TypeError") or stored:
                            ctx.violation(what="items that are not instances of the value type were accepted", target=TYPES[tt].__name__, items=str(SAMPLE[st_]), container=cname, op=opn,
                                          observed=(show(r)[:120] + f" -> {got}"), required="TypeError, nothing of the wrong type stored")
    # ---- the argument universe of the generated methods (tier T13, Model/VectorArgs.lean) against real objects: what Python can
    #      observe about an argument of each kind (Iterable? str? instance of which scalar type? what list() does) ---------------------
    import collections, enum as _enum
    from collections.abc import Iterable
    import numpy as _np

    class _IE(_enum.IntEnum):
        A = 1

    def _gen2():
        yield 1
        yield None
    arg_objects = [("scalar b", True), ("scalar b", False), ("scalar i", 3), ("scalar i", -1), ("scalar i", 10 ** 30), ("scalar i", _IE.A),
                   ("scalar f", 2.5), ("scalar f", float("nan")), ("scalar f", _np.float64(1.5)), ("scalar s", "ab"), ("scalar s", _np.str_("xy")),
                   ("iterable -", [1, None]), ("iterable -", (1, None)), ("iterable -", iter([1, None])), ("iterable -", _gen2()), ("iterable -", range(2)),
                   ("iterable -", {1: 0, 2: 0}), ("iterable -", {1, 2}), ("iterable -", b"ab"), ("iterable -", bytearray(b"ab")), ("iterable -", _np.array([1, 2])),
                   ("iterable -", Vector([1, 2])), ("iterable -", collections.deque([1, 2])),
                   ("other -", None), ("other -", object()), ("other -", 5j), ("other -", Ellipsis), ("other -", len), ("other -", _np.int64(3))]
    k_lines, k_want = [], []
    for tag, x in arg_objects:
        tf = lambda b_: "t" if b_ else "f"
        try:
            lst = "ok" + str(len(list(x)))
        except TypeError:
            lst = "TypeError"
        k_lines.append("vk " + tag)
        k_want.append(f"iter={tf(isinstance(x, Iterable))} str={tf(isinstance(x, str))} inst={tf(isinstance(x, bool))}{tf(isinstance(x, int))}{tf(isinstance(x, float))}{tf(isinstance(x, str))} "
                      f"list={lst} scalar={tf(isinstance(x, (bool, int, float, str)))}")
    k_res = ctx.model(k_lines)
    for (tag, x), line, want, got in zip(arg_objects, k_lines, k_want, k_res or []):
        ctx.case(("arg-kind", tag, type(x).__name__))
        ctx.count("argument kind", tag.split()[0])
        if got != want:
            ctx.mismatch(stream="argument kinds (T13)", request=line, object=f"{type(x).__name__}: {x!r}"[:80], model_says=got, code_says=want)
    # ---- a Vector as the iterable, in states only a history reaches (an int vector that begins with a bool, an int vector holding only
    #      bools, emptied vectors): Vector(v) is Vector(list(v)) - same refusal, or same elements, same value type, same later behaviour ----
    def _mk(vt, items):
        v_ = Vector([], value_type=vt)
        v_.extend(items)
        return v_
    histories = [_mk(int, [True, 2, 3]), _mk(int, [True, False, True]), _mk(int, [1, True]), _mk(int, [False]), _mk(float, [1.5, 2.5]), _mk(str, ["a"]), _mk(bool, [True]),
                 _mk(int, []), _mk(float, [])]
    v_edit = Vector([1, 2, 3]); v_edit[0] = True
    histories.append(v_edit)
    v_del = Vector([1, True, False]); del v_del[0]
    histories.append(v_del)
    for src in histories:
        for vt_kw in (None, src._value_type):
            kw = {} if vt_kw is None else {"value_type": vt_kw}
            o_v, o_l = outcome(lambda: Vector(src, **kw)), outcome(lambda: Vector(list(src), **kw))
            ctx.case(("vector-source", f"{src._value_type.__name__} {list(src)!r}", str(vt_kw)))
            ctx.count("source", "vector after a history")
            same = o_v[0] == o_l[0] and (o_v[1] == o_l[1] if o_v[0] == "err" else (list(o_v[1]) == list(o_l[1]) and [type(x) for x in o_v[1]] == [type(x) for x in o_l[1]]
                                                                                       and o_v[1]._value_type is o_l[1]._value_type))
            if same and o_v[0] == "ok":
                p_v, p_l = outcome(lambda: o_v[1].append(7)), outcome(lambda: o_l[1].append(7))
                same = p_v[0] == p_l[0] and list(o_v[1]) == list(o_l[1])
            if not same:
                ctx.violation(what="Vector(v) differs from Vector(list(v))", source=f"{src._value_type.__name__} {list(src)!r}", value_type=str(vt_kw),
                              observed=(show(o_v)[:80] if o_v[0] == "err" else f"{o_v[1]._value_type.__name__} {list(o_v[1])!r}"), required=(show(o_l)[:80] if o_l[0] == "err" else f"{o_l[1]._value_type.__name__} {list(o_l[1])!r}"))
    # ---- == compares element lists and units (the units ATTRIBUTE: '' whether the entry is there, empty, or was removed) --------------
    import copy as _copy, pickle as _pickle

    def _routes(items, units):
        out = [("fresh", Vector(list(items), units))]
        a_ = Vector(list(items)); a_.units = units; out.append(("units assigned", a_))
        if units == "":
            b_ = Vector(list(items)); del b_.extended_properties["NI_UnitDescription"]; out.append(("entry deleted", b_))
            c_ = Vector(list(items)); c_.extended_properties.pop("NI_UnitDescription"); out.append(("entry popped", c_))
            d_ = Vector(list(items)); d_.extended_properties.clear(); out.append(("properties cleared", d_))
            out.append(("pickled copy of entry deleted", _pickle.loads(_pickle.dumps(b_)))); out.append(("deep copy of entry deleted", _copy.deepcopy(b_)))
        e_ = Vector(list(items), extended_properties={"NI_UnitDescription": units, "other": 1}); del e_.extended_properties["other"]; out.append(("from properties", e_))
        return out
    for items in ([1, 2, 3], ["a"], [1.5, 2.5], [True]):
        for ua in ("", "V"):
            for ub in ("", "V"):
                for (la, va) in _routes(items, ua):
                    for (lb, vb) in _routes(items, ub):
                        want = ua == ub
                        o1, o2 = outcome(lambda: va == vb), outcome(lambda: va != vb)
                        ctx.case(("vector-eq", str(items), ua, ub, la, lb))
                        if o1 != ("ok", want) or o2 != ("ok", not want):
                            ctx.violation(what="Vector == is not equality of element lists and units", items=str(items), left=f"{la} (units {va.units!r})", right=f"{lb} (units {vb.units!r})",
                                          observed=f"== {show(o1)[:30]}, != {show(o2)[:30]}", required=f"== {want}")
    # ---- every small slice assignment and slice deletion, against the list doing the same (extended slices with replacements of every
    #      length, the empty one included: a list refuses a size mismatch with ValueError and stays as it was) ---------------------------
    bounds = [None, -5, -2, -1, 0, 1, 2, 5]
    n_slice = 0
    for ln in range(0, 5):
        base = [10 * k + 1 for k in range(ln)]
        for st_ in (None, 1, 2, 3, -1, -2, -3):
            for a_ in bounds:
                for b_ in bounds:
                    sl = slice(a_, b_, st_)
                    for rl in range(0, 4):
                        repl = [100 + k for k in range(rl)]
                        for one_shot in (False, True):
                            v = Vector(list(base), value_type=int) if not base else Vector(list(base))
                            l = list(base)
                            rv = outcome(lambda: v.__setitem__(sl, iter(repl) if one_shot else list(repl)))
                            rl_ = outcome(lambda: l.__setitem__(sl, iter(repl) if one_shot else list(repl)))
                            n_slice += 1
                            if (rv[0], rv[1] if rv[0] == "err" else None) != (rl_[0], rl_[1] if rl_[0] == "err" else None) or list(v) != l:
                                ctx.violation(what="slice assignment differs from the list's", start=str(base), slice=f"[{a_}:{b_}:{st_}]", replacement=str(repl),
                                              one_shot=one_shot, observed=f"{show(rv)[:60]} -> {list(v)}", required=f"{show(rl_)[:60]} -> {l}")
                    v = Vector(list(base), value_type=int) if not base else Vector(list(base))
                    l = list(base)
                    rv, rl_ = outcome(lambda: v.__delitem__(sl)), outcome(lambda: l.__delitem__(sl))
                    n_slice += 1
                    if rv[0] != rl_[0] or list(v) != l:
                        ctx.violation(what="slice deletion differs from the list's", start=str(base), slice=f"[{a_}:{b_}:{st_}]", observed=f"{show(rv)[:60]} -> {list(v)}",
                                      required=f"{show(rl_)[:60]} -> {l}")
    ctx.case(("small-slices", n_slice))
    ctx.extra["small_slice_cases"] = n_slice
    # ---- empty vectors: whatever is passed as value_type, every element that is ever stored is a bool, int, float or str and all
    #      elements are instances of ONE of those types (the property's "always an instance of the vector's value type") -----------
    import enum, fractions, decimal as _dec

    class _Color(enum.IntEnum):
        RED = 1
    odd_types = [object, (int, str), (bool, int, float, str), bytes, complex, list, type(None), fractions.Fraction, _dec.Decimal, bytearray, tuple, dict,
                 "int", 1, int | str, type, _Color, bool, int, float, str]
    probes = [True, 3, 2.5, "s", b"x", [1], None, 2j, fractions.Fraction(1, 2), _dec.Decimal(1), (1,), {}, _Color.RED]
    for vt in odd_types:
        o = outcome(lambda: Vector([], value_type=vt))
        ctx.case(("odd-value-type", repr(vt)))
        ctx.count("value_type", "supported" if vt in (bool, int, float, str) else "other")
        if o[0] == "err":
            if vt in (bool, int, float, str):
                ctx.violation(what="constructor refused a supported value_type", value_type=repr(vt), observed=show(o), required="an empty Vector")
            elif o[1] != "TypeError":
                ctx.violation(what="constructor error class for an unsupported value_type", value_type=repr(vt), observed=show(o), required="TypeError")
            continue
        v = o[1]
        for route in ("append", "insert", "extend", "setslice", "iadd"):
            for x in probes:
                if route == "append": outcome(lambda: v.append(x))
                elif route == "insert": outcome(lambda: v.insert(0, x))
                elif route == "extend": outcome(lambda: v.extend([x]))
                elif route == "setslice": outcome(lambda: v.__setitem__(slice(0, 0), [x]))
                else:
                    def f():
                        w_ = v; w_ += [x]
                    outcome(f)
                held = list(v)
                bad = [y for y in held if not isinstance(y, (bool, int, float, str))]
                one = any(all(isinstance(y, T) for y in held) for T in (bool, int, float, str))
                if bad or not one:
                    ctx.violation(what="a Vector created empty with this value_type holds elements that are not all instances of one of bool/int/float/str",
                                  value_type=repr(vt), route=route, item=repr(x), observed=repr(held)[:200],
                                  required="TypeError at construction, or every stored element an instance of one supported type")
                    break
            else:
                continue
            break
    n_hist = 250 if ctx.quick else 8000
    for h in range(n_hist):
        t = rng.choice("bifs")
        n = rng.randint(0, 5)
        items = [val(t) for _ in range(n)]
        if t == "i" and rng.random() < 0.3 and n > 1:
            items[rng.randrange(1, n)] = True           # a bool inside an int vector is allowed
        if rng.random() < 0.2 and n > 0:
            items[rng.randrange(n)] = val(rng.choice("bifsx"))   # possibly offending
        if rng.random() < 0.1:
            items = list(range(n))
        vt = rng.choice([None, TYPES[t]]) if items else rng.choice([None, TYPES[t], TYPES[t]])
        source, kind = src_kind(items)
        o = outcome(lambda: Vector(source, value_type=vt))
        line = f"vnew [{','.join(enc(x) for x in items)}] {'-' if vt is None else vt.__name__}"
        ctx.count("source", kind)
        if o[0] == "err":
            lines.append(line); expect.append("err " + o[1])
            ok_items = items and all(isinstance(x, (bool, int, float, str)) and isinstance(x, type(items[0])) for x in items)
            if ok_items or (not items and vt is not None):
                ctx.violation(what="constructor refused valid input", items=str(items), source=kind, observed=show(o), required="a Vector")
            elif o[1] != "TypeError":
                ctx.violation(what="constructor error class", items=str(items), observed=show(o), required="TypeError")
            ctx.case(("ctor", str(items), kind))
            continue
        v = o[1]
        l = list(items)
        lines.append(line); expect.append("ok " + snap(v))
        if list(v) != items or [type(x) for x in v] != [type(x) for x in items]:
            ctx.violation(what="constructor lost / changed items", items=str(items), source=kind, observed=str(list(v)), required=str(items))
        if items and any(not isinstance(x, type(items[0])) for x in items):
            ctx.violation(what="constructor accepted an item of another type", items=str(items), observed="accepted", required="TypeError")
        # the vector holds the items, not the caller's container: later changes of a source list are not changes of the
        # vector (which would bypass the type check), and vector operations do not reach back into the source
        if kind == "list" and isinstance(source, list):
            keep = list(source)
            source.append("not of the value type" if not isinstance(items[0] if items else 0, str) else 3.5)
            if source and len(source) > 1:
                source[0] = source[-1]
            if list(v) != items:
                ctx.violation(what="mutating the source list changed the Vector", items=str(items), observed=str(list(v)), required=str(items))
            del source[:]
            source.extend(keep)
            probe = outcome(lambda: v.append(items[0])) if items else None
            if probe is not None and probe[0] == "ok":
                if source != keep:
                    ctx.violation(what="a Vector operation changed the source list", items=str(items), observed=str(source), required=str(keep))
                v.pop()
        vtype = v._value_type
        for _ in range(rng.randint(0, 10)):
            op = rng.choice(["set", "setslice", "del", "delslice", "insert", "append", "extend", "iadd", "pop", "remove", "reverse", "clear"])
            good = lambda: val({bool: "b", int: rng.choice("ib"), float: "f", str: "s"}[vtype])
            anyv = lambda: good() if rng.random() < 0.75 else val(rng.choice("bifsx"))
            i = rng.randint(-7, 7)
            # an index is anything with __index__ (as for a list): NumPy integer scalars, user classes, bool
            ii = i
            if rng.random() < 0.3:
                ii = rng.choice([np.int64, np.int8, np.uint8 if i >= 0 else np.int16, Idx, np.intp])(i)
                ctx.count("index-spelling", type(ii).__name__)
            sl = tuple(rng.choice([None] + list(range(-6, 7))) for _ in range(2)) + (rng.choice([None, 1, 2, -1, -2, 0]),)
            before = list(v)
            refused_ok = True
            if op == "set":
                x = anyv()
                if rng.random() < 0.12:
                    x = rng.choice([[good()], (good(),), []])      # a container is never an element
                r = outcome(lambda: v.__setitem__(ii, x)); line = f"vset {i} {enc(x)}"
                lr = outcome(lambda: l.__setitem__(ii, x)) if r[0] == "ok" else None
                refused_ok = not isinstance(x, vtype) or outcome(lambda: list(l).__setitem__(ii, x))[0] == "err"
            elif op == "setslice":
                xs = [anyv() for _ in range(rng.randint(0, 4))]
                if rng.random() < 0.2:
                    # a homogeneous replacement of ANOTHER type (so that it can also arrive as a Vector of that type):
                    # ints for a bool vector, bools for an int vector, floats for ints ...
                    ot = rng.choice("bifs")
                    xs = [val(ot) for _ in range(rng.randint(1, 3))]
                src, kind = src_kind(xs)
                r = outcome(lambda: v.__setitem__(slice(*sl), src)); line = f"vsetslice {fmt(sl[0])} {fmt(sl[1])} {fmt(sl[2])} [{','.join(enc(x) for x in xs)}]"
                lr = outcome(lambda: l.__setitem__(slice(*sl), list(xs))) if r[0] == "ok" else None
                ctx.count("source", "slice-" + kind)
                if any(not isinstance(x, vtype) for x in xs) and not (r[0] == "err" and r[1] == "TypeError"):
                    ctx.violation(what="slice assignment with an item that is not of the value type", values=str(before), items=str(xs), source=kind,
                                  value_type=vtype.__name__, observed=show(r), required="TypeError, nothing stored")
            elif op == "del":
                r = outcome(lambda: v.__delitem__(ii)); line = f"vdel {i}"
                lr = outcome(lambda: l.__delitem__(ii)) if r[0] == "ok" else None
                refused_ok = outcome(lambda: list(l).__delitem__(ii))[0] == "err"
            elif op == "delslice":
                r = outcome(lambda: v.__delitem__(slice(*sl))); line = f"vdelslice {fmt(sl[0])} {fmt(sl[1])} {fmt(sl[2])}"
                lr = outcome(lambda: l.__delitem__(slice(*sl))) if r[0] == "ok" else None
            elif op == "insert":
                x = anyv(); r = outcome(lambda: v.insert(ii, x)); line = f"vinsert {i} {enc(x)}"
                refused_ok = not isinstance(x, vtype)
                if not isinstance(x, vtype) and not (r[0] == "err" and r[1] == "TypeError"):
                    ctx.violation(what="insert of an item that is not of the value type", item=repr(x), value_type=vtype.__name__, observed=show(r), required="TypeError")
                lr = outcome(lambda: l.insert(ii, x)) if r[0] == "ok" else None
            elif op == "append":
                x = anyv(); r = outcome(lambda: v.append(x)); line = f"vappend {enc(x)}"
                if not isinstance(x, vtype) and not (r[0] == "err" and r[1] == "TypeError"):
                    ctx.violation(what="append of an item that is not of the value type", item=repr(x), value_type=vtype.__name__, observed=show(r), required="TypeError")
                lr = outcome(lambda: l.append(x)) if r[0] == "ok" else None
            elif op in ("extend", "iadd"):
                xs = [anyv() for _ in range(rng.randint(0, 4))]
                if rng.random() < 0.2:
                    ot = rng.choice("bifs")
                    xs = [val(ot) for _ in range(rng.randint(1, 3))]
                src, kind = src_kind(xs)
                if op == "extend":
                    r = outcome(lambda: v.extend(src))
                else:
                    def f():
                        w = v; w += src
                    r = outcome(f)
                line = f"vextend [{','.join(enc(x) for x in xs)}]"
                k = next((j for j, x in enumerate(xs) if not isinstance(x, vtype)), len(xs))
                l.extend(xs[:k]); lr = ("ok", None)
                if (r[0] == "ok") != (k == len(xs)):
                    ctx.violation(what="extend accepted / refused wrongly", values=str(before), items=str(xs), observed=show(r), required="TypeError iff an item is not of the value type")
            elif op == "pop":
                r = outcome(lambda: v.pop(ii)); line = f"vpop {i}"
                lr = outcome(lambda: l.pop(ii)) if r[0] == "ok" else None
                refused_ok = outcome(lambda: list(l).pop(ii))[0] == "err"
            elif op == "remove":
                x = good()
                if rng.random() < 0.35:
                    # searching compares with ==, like a list: 2.0 finds the int 2, True finds 1 and 1.0 (no type filter on the needle)
                    x = rng.choice([float(rng.randint(0, 3)), rng.randint(0, 3), bool(rng.randint(0, 1)), str(rng.randint(0, 3))])
                r = outcome(lambda: v.remove(x)); line = f"vremove {enc(x)}"
                lr = outcome(lambda: l.remove(x)) if r[0] == "ok" else None
                refused_ok = outcome(lambda: list(l).remove(x))[0] == "err"
                # the read-only searches, on the same needle
                for sname, sf in (("index", lambda c: c.index(x)), ("count", lambda c: c.count(x)), ("in", lambda c: x in c)):
                    sv, sl_ = outcome(sf, v), outcome(sf, l)
                    if sv[:2] != sl_[:2]:
                        ctx.violation(what="searching the Vector differs from searching the list", op=sname, needle=repr(x), values=str(list(v)), observed=show(sv), required=show(sl_))
            elif op == "reverse":
                r = outcome(v.reverse); line = "vreverse"; l.reverse(); lr = ("ok", None)
            else:
                r = outcome(v.clear); line = "vclear"; l.clear(); lr = ("ok", None)
            lines.append(line)
            if r[0] == "ok":
                expect.append(("ok " + (enc(r[1]) + " " if op == "pop" else "") + snap(v)))
            elif op in ("extend", "iadd"):
                expect.append("err " + r[1] + " " + snap(v))
            else:
                expect.append("err " + r[1])
                if list(v) != before:
                    ctx.violation(what="rejected call stored something", op=line, observed=str(list(v)), required=str(before))
            if r[0] == "err" and not refused_ok:
                ctx.violation(what="Vector refused what a list accepts", op=line, index=f"{type(ii).__name__}({i})", values=str(before),
                              observed=show(r), required="the list operation")
            if lr is not None and lr[0] == "err":
                ctx.violation(what="Vector accepted what a list rejects", op=line, observed="ok", required=show(lr))
            if any(not isinstance(x, vtype) for x in v) or v._value_type is not vtype:
                ctx.violation(what="an element is not an instance of the vector's value type", op=line, value_type=vtype.__name__,
                              observed=str([type(x).__name__ for x in v]), required=f"all {vtype.__name__}")
                break
            if list(v) != l or [type(x) for x in v] != [type(x) for x in l]:
                ctx.violation(what="Vector differs from the list", op=line, observed=str(list(v)), required=str(l))
                break
            if any(not isinstance(x, vtype) for x in v) or v._value_type is not vtype:
                ctx.violation(what="element of another type stored / value type changed", op=line, observed=snap(v), required=vtype.__name__)
                break
            ctx.count("op", op)
            ctx.count("outcome", "ok" if r[0] == "ok" else r[1])
            ctx.case((h, line))
        # == compares element lists and units
        import copy
        w, u, a, sh = copy.deepcopy(v), copy.deepcopy(v), copy.deepcopy(v), copy.deepcopy(v)
        w.units = u.units = sh.units = "V"
        a.units = "A"
        if len(sh):
            del sh[-1]
        if not (w == u) or (len(v) and w == sh) or w == a:
            ctx.violation(what="==", values=str(list(v)), observed="wrong", required="element lists and units")
    res = ctx.model(lines)
    if res is not None:
        for q, want, got in zip(lines, expect, res):
            parts = got.split()
            g = got
            if got.startswith("err "):
                g = "err " + parts[2] + ("" if len(parts) <= 3 else " " + " ".join(parts[3:]))
            if g != want:
                ctx.mismatch(stream="vector " + q.split()[0], request=q[:200], model_says=got[:200], code_says=want[:200])
                break
    ctx.extra["model_lines_compared"] = len(lines)
    for q, e in list(zip(lines, expect))[1:2000:250]:
        ctx.sample({"request": q[:120], "response": e[:120]})


def replay(doc):
    print(doc.get("input"))
    return 0
