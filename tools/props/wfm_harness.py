"""Shared history harness for the waveform buffer machine (C01 C07 C09 C10 C13 C15).

One seeded generator produces histories of public operations on AnalogWaveform / ComplexWaveform /
Spectrum / DigitalWaveform objects (valid and invalid arguments interleaved, owned and borrowed
buffers, the three timing modes).  Every operation is executed on the real objects and rendered as a
line of the stateful protocol of Model/WfmProto.lean; after the run the observable snapshots are
compared line by line.  The property oracles (written from the property texts, over observations of
the real objects only) run on every operation.
"""
from __future__ import annotations

import copy as _copy
import datetime as dt
import pickle
import warnings

import numpy as np

from props.common import base_of

BASE = dt.datetime(2024, 1, 1, tzinfo=dt.timezone.utc)
LINE_NAMES = "NI_LineNames"


def dtypes():
    from nitypes.complex import ComplexInt32DType
    return [np.dtype(np.float32), np.dtype(np.float64), np.dtype(np.int8), np.dtype(np.int16), np.dtype(np.int32),
            np.dtype(np.int64), np.dtype(np.uint8), np.dtype(np.uint16), np.dtype(np.uint32), np.dtype(np.uint64),
            np.dtype(np.complex64), np.dtype(np.complex128), np.dtype(ComplexInt32DType), np.dtype(np.bool_)]


SUPPORTED = {"analog": list(range(10)), "complex": [10, 11, 12], "spectrum": list(range(10)), "digital": [13, 2, 6]}


def classes():
    from nitypes.waveform import AnalogWaveform, ComplexWaveform, DigitalWaveform, Spectrum
    return {"analog": AnalogWaveform, "complex": ComplexWaveform, "spectrum": Spectrum, "digital": DigitalWaveform}


def hexs(s: str) -> str:
    return "".join("%02x" % (ord(c) & 0xFF) for c in s)


def to_int(v) -> int:
    if isinstance(v, np.void):
        return int(v["real"])
    if isinstance(v, (complex, np.complexfloating)):
        return int(v.real)
    return int(v)


class World:
    def __init__(self, rng):
        self.rng = rng
        self.DT = dtypes()
        self.CLS = classes()
        self.objs = {}        # name -> (kind, real object)
        self.lines = []       # protocol lines
        self.expect = []      # expected response per line (from the real objects)
        self.records = []     # per-op records for the oracles
        self.counter = 0

    # ---- value helpers -------------------------------------------------------------------------
    def dtag(self, dtype) -> int:
        d = np.dtype(dtype)
        for i, x in enumerate(self.DT):
            if x == d:
                return i
        return 99

    def mk_values(self, tag: int, n: int, ncols: int = 1, digital: bool = False):
        rng = self.rng
        if tag == 13:
            hi = 2
        elif digital:
            hi = 8
        else:
            hi = 100
        return [[rng.randrange(hi) for _ in range(ncols)] for _ in range(n)]

    def mk_array(self, tag: int, rows, ndim: int, kind: str = "owned"):
        """ndarray holding `rows`; kind: owned | view (slice of a larger owned array) | strided."""
        dtp = self.DT[tag]
        flat = [r[0] for r in rows] if ndim == 1 else rows
        if tag == 12:
            base = np.zeros(len(rows) if ndim == 1 else (len(rows), len(rows[0]) if rows else 1), dtp)
            if ndim == 1:
                base["real"] = flat
            else:
                base["real"] = np.array(flat, np.int16).reshape(base.shape)
            arr = base
        else:
            if ndim == 1:
                arr = np.array(flat, dtp)
            elif ndim == 2:
                arr = np.array(flat, dtp).reshape(len(rows), len(rows[0]) if rows else 1).copy()
            else:
                arr = np.array(flat, dtp).reshape(len(rows), 1, 1)
        if kind == "view":
            if ndim == 1:
                big = np.concatenate([arr[:1] if len(arr) else arr, arr, arr[:1] if len(arr) else arr])
                off = 1 if len(arr) else 0
                arr = big[off:off + len(rows)]
            else:
                big = np.concatenate([arr, arr]) if len(arr) else arr
                arr = big[: len(rows)]
        elif kind == "swapped":
            # the same values in the other byte order: another dtype (NumPy compares byte order), never a reinterpretation of the bytes
            if arr.dtype.itemsize > 1 and arr.dtype.names is None:
                arr = arr.astype(arr.dtype.newbyteorder())
        elif kind == "strided" and ndim == 1 and tag != 12:
            big = np.zeros(2 * len(rows) + 1, dtp)
            big[::2][: len(rows)] = flat
            arr = big[::2][: len(rows)]
        return arr

    def arr_token(self, arr) -> str:
        tag = self.dtag(arr.dtype)
        ndim = arr.ndim
        if ndim == 1:
            rows = [[to_int(v)] for v in arr]
            ncols = 1
        elif ndim == 2:
            rows = [[to_int(v) for v in r] for r in arr]
            ncols = arr.shape[1]
        else:
            rows = [[to_int(v)] for v in arr.reshape(-1)]
            ncols = 1
        owned = 1 if arr.flags.owndata else 0
        rt = "_" if not rows else "|".join(";".join(str(v) for v in r) for r in rows)
        return f"{tag}:{ndim}:{ncols}:{owned}:{rt}"

    # ---- timing ------------------------------------------------------------------------------------
    def mk_timing(self, spec):
        """spec: None | ('N', tag) | ('R', interval, tag) | ('I', [stamps])  -> (real Timing, token)"""
        from nitypes.waveform import Timing
        if spec is None:
            return None, "-"
        if spec[0] == "N":
            ts = BASE + dt.timedelta(seconds=spec[1]) if spec[1] else None
            return Timing.create_with_no_interval(ts), f"N:-:{spec[1]}:_"
        if spec[0] == "R":
            ts = BASE + dt.timedelta(seconds=spec[2]) if spec[2] else None
            return Timing.create_with_regular_interval(dt.timedelta(seconds=spec[1]), ts), f"R:{spec[1]}:{spec[2]}:_"
        stamps = spec[1]
        tok = "_" if not stamps else ",".join(str(s) for s in stamps)
        return Timing.create_with_irregular_interval([BASE + dt.timedelta(seconds=s) for s in stamps]), f"I:-:0:{tok}"

    def timing_render(self, obj) -> str:
        t = getattr(obj, "_timing", None)
        if t is None:
            return "N:-:_"
        from nitypes.waveform import SampleIntervalMode
        if t.sample_interval_mode == SampleIntervalMode.IRREGULAR:
            st = [int((x - BASE).total_seconds()) for x in t._timestamps]
            return "I:-:" + ("_" if not st else ",".join(map(str, st)))
        iv = "-" if not t.has_sample_interval else str(int(t.sample_interval.total_seconds()))
        return ("R" if t.sample_interval_mode == SampleIntervalMode.REGULAR else "N") + f":{iv}:_"

    def mk_scale(self, sid: int):
        from nitypes.waveform import NO_SCALING, LinearScaleMode
        return NO_SCALING if sid == 0 else LinearScaleMode(float(sid), 0.0)

    def scale_id(self, obj) -> int:
        from nitypes.waveform import NO_SCALING
        sm = getattr(obj, "_scale_mode", None)
        if sm is None or sm is NO_SCALING or sm == NO_SCALING:
            return 0
        return int(sm.gain)

    # ---- snapshots -----------------------------------------------------------------------------------
    def data_of(self, kind, obj):
        d = obj.raw_data if kind in ("analog", "complex") else obj.data
        if kind == "digital":
            return [[to_int(v) for v in r] for r in d]
        return [[to_int(v)] for v in d]

    def snap(self, kind, obj) -> str:
        """observable snapshot; an object that can no longer be observed is a state of its own (never a harness crash)"""
        try:
            return self._snap(kind, obj)
        except Exception as e:  # noqa: BLE001
            return f"start=? count=? cap=? ncols=? dtype=? data=UNOBSERVABLE:{type(e).__name__} timing=? scale=? props=?"

    def _snap(self, kind, obj) -> str:
        rows = self.data_of(kind, obj)
        rt = "_" if not rows else "|".join(";".join(str(v) for v in r) for r in rows)
        ncols = obj.signal_count if kind == "digital" else 1
        props = dict(obj.extended_properties)
        pt = "_" if not props else ";".join(f"{k}={hexs(str(v))}" for k, v in props.items())
        return (f"start={obj.start_index} count={obj.sample_count} cap={obj.capacity} ncols={ncols} "
                f"dtype={self.dtag(obj.dtype)} data={rt} timing={self.timing_render(obj)} scale={self.scale_id(obj)} props={pt}")

    def full_state(self):
        """Everything observable in the world, for the C07 frame oracle."""
        return {n: self.snap(k, o) for n, (k, o) in self.objs.items()}

    # ---- running an op on the real objects --------------------------------------------------------------
    def run(self, line: str, thunk, target: str | None, kind: str | None, args_state=None, extra=lambda: ""):
        before = self.full_state()
        held = args_state() if args_state else None
        with warnings.catch_warnings(record=True) as wl:
            warnings.simplefilter("always")
            try:
                res = thunk()
                err = None
            except Exception as e:  # noqa: BLE001
                res, err = None, e
        warn = sorted({"T" if "Timing" in type(w.message).__name__ else "S" for w in wl
                       if type(w.message).__name__ in ("TimingMismatchWarning", "ScalingMismatchWarning")})
        after = self.full_state()
        rec = {"line": line, "target": target, "kind": kind, "err": None if err is None else (base_of(err), type(err).__name__),
               "before": before, "after": after, "warn": warn, "res": res,
               "args_changed": (held is not None and args_state() != held)}
        rec["idx"] = len(self.lines)
        self.records.append(rec)
        self.lines.append(line)
        if err is not None:
            self.expect.append("err " + base_of(err))
        else:
            self.expect.append(extra() if extra() else ("ok " + (after[target] if target in after else "")))
        return rec

    def fresh(self) -> str:
        self.counter += 1
        return f"w{self.counter}"


def npint(rng, x, p=0.3):
    """the same integer, sometimes as a NumPy integer scalar of a width that just holds it (indices and sizes are
    SupportsIndex: a NumPy scalar must behave exactly like the Python int)"""
    import numpy as np
    if x is None or isinstance(x, bool) or not isinstance(x, int) or rng.random() > p:
        return x
    cands = [np.int64]
    for t in (np.int8, np.uint8, np.int16, np.uint16, np.int32, np.uint32, np.uint64):
        info = np.iinfo(t)
        if info.min <= x <= info.max:
            cands.append(t)
    return rng.choice(cands)(x)


def opt(x):
    return "-" if x is None else str(x)


def props_token(p):
    return "_" if not p else ";".join(f"{k}={hexs(v)}" for k, v in p.items())


def gen_history(world: World, kind: str, length: int, weights=None, irregular_bias: float = 0.3, force_cols=None,
                valid_bias: float = 0.0):
    """Generate and execute one history on the real objects; returns the main object's name."""
    rng = world.rng
    world.objs = {}          # the frame oracle looks at the objects of this history only
    world.lines.append("wreset"); world.expect.append("ok")     # and so does the model driver (its table stays small)
    CLS = world.CLS[kind]
    digital = kind == "digital"
    tag = rng.choice(SUPPORTED[kind])
    ncols = (1 if rng.random() < 0.45 else rng.randint(2, 3)) if digital else 1
    if force_cols is not None and digital:
        ncols = force_cols
    main = world.fresh()
    hint = {"junction": None}   # when set: bias irregular source timing towards the receiver's last timestamp

    def rand_props():
        keys = ["a", "b", "NI_ChannelName", "NI_UnitDescription"] + ([LINE_NAMES] if digital else [])
        return {k: rng.choice(["x", "y z", "p, q", "n1, n2, n3", ""]) for k in rng.sample(keys, rng.randint(0, 3))}

    def rand_timing(n, allow_bad=True):
        if kind == "spectrum":
            return None
        c = rng.random()
        if hint["junction"] is not None and rng.random() < 0.7:
            # continue from the receiver's last timestamp: equal junction or one step away, either direction,
            # possibly with a plateau — the cases where only the concatenation as a whole decides monotonicity
            cur = hint["junction"] + rng.choice([0, 0, 1, -1])
            d = rng.choice([1, -1])
            st = []
            for _k in range(n):
                st.append(cur)
                cur += d * rng.choice([0, 1, 1, 2])
            return ("I", st)
        if c < irregular_bias:
            m = n if (not allow_bad or rng.random() < 0.8) else max(0, n + rng.choice([-1, 1, 2]))
            st = sorted(rng.randint(0, 50) for _ in range(m))
            if rng.random() < 0.3:
                st = st[::-1]
            return ("I", st)
        if c < irregular_bias + 0.3:
            return ("R", rng.choice([1, 1, 2, 5]), rng.choice([0, 3]))
        if c < irregular_bias + 0.45:
            return ("N", rng.choice([0, 7]))
        return None

    def construct(name, knd_tag=None, n=None, cols=None, must_succeed=False):
        t = tag if knd_tag is None else knd_tag
        cols = ncols if cols is None else cols
        for _attempt in range(20):
            c = rng.random()
            scale = rng.choice([0, 0, 1, 2]) if kind in ("analog", "complex") else 0
            props = rand_props()
            if c < 0.4 and not must_succeed or (must_succeed and c < 0.5):
                cnt = rng.choice([None, 0, 1, 2, 3, 5]) if n is None else n
                st = rng.choice([None, None, 0, 1, 2])
                cap = rng.choice([None, None, (cnt or 0) + (st or 0), (cnt or 0) + (st or 0) + 3, 1, 0])
                if must_succeed:
                    st, cap = rng.choice([None, 0, 1]), None
                    cap = (cnt or 0) + (st or 0) + rng.choice([0, 0, 2])
                tsp = rand_timing(cnt or 0, allow_bad=not must_succeed)
                timing, ttok = world.mk_timing(tsp)
                fill = rng.choice([0, 0, 1]) if digital else 0
                kw = dict(start_index=npint(rng, st), capacity=npint(rng, cap), extended_properties=props)
                if kind != "spectrum":
                    kw["timing"] = timing
                if kind in ("analog", "complex"):
                    kw["scale_mode"] = world.mk_scale(scale)
                if digital:
                    thunk = lambda cnt=npint(rng, cnt), cols=npint(rng, cols): CLS(cnt, cols, world.DT[t], fill if fill else None, **kw)
                else:
                    thunk = lambda cnt=npint(rng, cnt): CLS(cnt, world.DT[t], **kw)
                line = (f"wnew {name} {kind} {t} {1 if t in SUPPORTED[kind] else 0} {opt(cnt)} {opt(cols if digital else None)} "
                        f"{opt(st)} {opt(cap)} {fill} {props_token(props)} {ttok} {scale}")
            else:
                m = rng.randint(0, 6) if n is None else n + rng.choice([0, 0, 1, 3])
                rows = world.mk_values(t, m, cols, digital)
                nd = 1 if not digital else rng.choice([2, 1] if cols == 1 else [2])
                ak = rng.choice(["owned", "owned", "view", "strided"])
                arr = world.mk_array(t, rows, nd, ak)
                st = rng.choice([None, None, 0, 1, 2, m, m + 1])
                cnt = rng.choice([None, None, 0, 1, max(0, m - (st or 0)), m + 1]) if n is None else n
                if must_succeed:
                    st = rng.choice([None, 0, min(1, m)])
                    cnt = n if n is not None else None
                    if n is not None and (st or 0) + n > m:
                        st = 0
                ncnt = (m - (st or 0)) if cnt is None else cnt
                tsp = rand_timing(max(0, ncnt), allow_bad=not must_succeed)
                timing, ttok = world.mk_timing(tsp)
                kw = dict(start_index=npint(rng, st), sample_count=npint(rng, cnt), extended_properties=props)
                if kind != "spectrum":
                    kw["timing"] = timing
                if kind in ("analog", "complex"):
                    kw["scale_mode"] = world.mk_scale(scale)
                if digital:
                    thunk = lambda: CLS(data=arr, **kw)
                elif kind == "spectrum":
                    thunk = lambda: CLS(data=arr, **kw)
                else:
                    thunk = lambda: CLS(raw_data=arr, **kw)
                line = (f"warr {name} {kind} {world.arr_token(arr)} - {1 if t in SUPPORTED[kind] else 0} {opt(st)} {opt(cnt)} "
                        f"- - {props_token(props)} {ttok} {scale}")
            holder = {}

            def th(thunk=thunk):
                o = thunk()
                world.objs[name] = (kind, o)
                holder["o"] = o
                return o
            rec = world.run(line, th, name, kind)
            if rec["err"] is None:
                return True
            if not must_succeed:
                return False
        return False

    if not construct(main, must_succeed=True):
        return None
    if digital:
        # an empty 2-D array carries its own column count: from here on the history uses the waveform's real signal count
        ncols = world.objs[main][1].signal_count
    ops = weights or {"appa": 4, "appw": 3, "load": 3, "setcount": 2, "setcap": 2, "settiming": 2, "write": 2, "get": 2,
                      "pickle": 1, "bad": 2}
    names = list(ops)
    for _ in range(length):
        k, o = world.objs[main]
        if "UNOBSERVABLE" in world.snap(k, o):
            break       # a previous call broke the object; that call's record already says so
        op = rng.choices(names, [ops[x] for x in names])[0]
        irregular = world.timing_render(o).startswith("I")
        if op == "appa":
            m = rng.choice([0, 1, 2, 3, 5])
            t2 = tag if rng.random() < max(0.9, valid_bias) else rng.choice(SUPPORTED[kind])
            cols2 = ncols if rng.random() < max(0.9, valid_bias) else rng.randint(1, 3)
            nd = (2 if rng.random() < 0.8 or cols2 != 1 else 1) if digital else (1 if rng.random() < 0.93 else 2)
            arr = world.mk_array(t2, world.mk_values(t2, m, cols2, digital), nd, rng.choice(["owned", "view"] if rng.random() < 0.93 else ["swapped"]))
            ts = None
            if kind != "spectrum":
                if irregular:
                    c = rng.random()
                    last = int(world.timing_render(o).split(":")[2].split(",")[-1]) if int(o.sample_count) and "_" not in world.timing_render(o).split(":")[2] else 0
                    first = int(world.timing_render(o).split(":")[2].split(",")[0]) if int(o.sample_count) and "_" not in world.timing_render(o).split(":")[2] else 0
                    desc = int(o.sample_count) > 1 and first > last
                    mm = m if c < 0.75 else max(0, m + rng.choice([-1, 1]))
                    if c < 0.9:
                        ts = [last + (-(i + 1) if desc else (i + 1)) * rng.choice([0, 1, 2]) for i in range(mm)]
                        if c > 0.82:
                            ts = ts[::-1]
                    else:
                        ts = None
                elif rng.random() < 0.15:
                    ts = list(range(m))
            tsreal = None if ts is None else [BASE + dt.timedelta(seconds=s) for s in ts]
            ttok = "-" if ts is None else ("_" if not ts else ",".join(map(str, ts)))
            if kind == "spectrum":
                thunk = lambda: o.append(arr)
            else:
                thunk = lambda: o.append(arr, tsreal)
            world.run(f"wappa {main} {world.arr_token(arr)} {ttok} 1", thunk, main, kind,
                      args_state=lambda: (arr.tobytes(), None if tsreal is None else list(tsreal)))
        elif op == "appw":
            srcs = []
            if irregular and int(o.sample_count):
                tr = world.timing_render(o).split(":")[2]
                hint["junction"] = int(tr.split(",")[-1]) if "_" not in tr else None
            for _i in range(rng.choice([1, 1, 2, 3])):
                nm = world.fresh()
                t2 = tag if rng.random() < 0.92 else rng.choice(SUPPORTED[kind])
                c2 = ncols if rng.random() < 0.9 else rng.randint(1, 3)
                # construct a source waveform (its own history of length 0)
                save = (tag, ncols)
                ok = False
                for _a in range(6):
                    ok = construct(nm, knd_tag=t2, n=rng.choice([0, 1, 2, 3]), cols=c2, must_succeed=True)
                    if ok:
                        break
                if ok:
                    # bias source timing towards the receiver's mode
                    srcs.append(nm)
            hint["junction"] = None
            if rng.random() < 0.12:
                # the receiver itself among the sources, once or twice (list semantics: its samples as they were before the call)
                for _k in range(rng.choice([1, 1, 2])):
                    srcs.insert(rng.randint(0, len(srcs)), main)
            if not srcs:
                continue
            real = [world.objs[n][1] for n in srcs]
            arg = real[0] if len(real) == 1 and rng.random() < 0.5 else (real if rng.random() < 0.8 else tuple(real))
            world.run(f"wappw {main} {','.join(srcs)}", lambda: o.append(arg), main, kind,
                      extra=lambda: "")
            # the expected line needs the warnings appended
            rec = world.records[-1]
            if rec["err"] is None:
                world.expect[-1] = "ok " + rec["after"][main] + " warn=" + ("_" if not rec["warn"] else ",".join(rec["warn"]))
        elif op == "load":
            m = rng.choice([0, 1, 2, 4, 6])
            sub_range = irregular and int(o.sample_count) >= 2 and rng.random() < 0.35
            if sub_range:
                m = int(o.sample_count)          # as many array elements as timestamps, of which only a part is loaded
            t2 = tag if rng.random() < max(0.92, valid_bias) else rng.choice(SUPPORTED[kind])
            cols2 = ncols if rng.random() < max(0.9, valid_bias) else rng.randint(1, 3)
            nd = (2 if rng.random() < 0.5 or cols2 != 1 else 1) if digital else (1 if rng.random() < 0.93 else 2)
            arr = world.mk_array(t2, world.mk_values(t2, m, cols2, digital), nd, rng.choice(["owned", "owned", "view"] if rng.random() < 0.93 else ["swapped"]))
            cp = rng.random() < 0.6
            st = rng.choice([None, None, None, 0, 0, 1, 2, m, m + 1, -1, -3])
            cnt = rng.choice([None, None, None, 0, 1, 2, max(0, m - (st or 0)), max(0, m - (st or 0)), m + 1, int(o.sample_count), -1])
            if rng.random() < valid_bias:
                st = rng.choice([None, 0, min(1, m)])
                cnt = rng.choice([None, None, max(0, m - (st or 0))])
            if sub_range:
                st = rng.choice([0, 1])
                cnt = rng.choice([m - st - 1, m - st - 1, None if st else m - 1])
            world.run(f"wload {main} {world.arr_token(arr)} {1 if cp else 0} {opt(st)} {opt(cnt)}",
                      lambda st=npint(rng, st), cnt=npint(rng, cnt): o.load_data(arr, copy=cp, start_index=st, sample_count=cnt), main, kind,
                      args_state=lambda: arr.tobytes())
        elif op == "setcount":
            v = rng.choice([0, 1, int(o.sample_count), int(o.sample_count) + 1, int(o.capacity) - int(o.start_index), int(o.capacity) + 1, -1,
                            max(0, int(o.sample_count) - 1)])
            def th(v=npint(rng, v)):
                o.sample_count = v
            world.run(f"wsetcount {main} {v}", th, main, kind)
        elif op == "setcap":
            v = rng.choice([int(o.capacity), int(o.capacity) + 2, int(o.start_index) + int(o.sample_count), max(0, int(o.start_index) + int(o.sample_count) - 1),
                            -1, int(o.capacity) + 7, 0])
            if rng.random() < valid_bias:
                v = int(o.capacity) + rng.choice([1, 2, 5])
            def th(v=npint(rng, v)):
                o.capacity = v
            world.run(f"wsetcap {main} {v}", th, main, kind)
        elif op == "settiming" and kind != "spectrum":
            tsp = rand_timing(int(o.sample_count)) or ("N", 0)
            timing, ttok = world.mk_timing(tsp)
            def th():
                o.timing = timing
            world.run(f"wsettiming {main} {ttok}", th, main, kind)
        elif op == "write":
            i = rng.choice([0, -1, int(o.sample_count) - 1, int(o.sample_count), rng.randint(-2, max(1, int(o.sample_count)))])
            row = world.mk_values(tag, 1, ncols, digital)[0]
            def th():
                view = o.raw_data if kind in ("analog", "complex") else o.data
                if tag == 12:
                    view[i] = (row[0], 0)
                elif digital:
                    view[i, :] = row
                else:
                    view[i] = row[0]
            world.run(f"wwrite {main} {i} {';'.join(map(str, row))}", th, main, kind)
        elif op == "get":
            s = rng.choice([None, 0, 1, int(o.sample_count), int(o.sample_count) + 1, -1])
            n = rng.choice([None, 0, 1, max(0, int(o.sample_count) - (s or 0)), int(o.sample_count) + 1, -1])
            getter = o.get_raw_data if kind in ("analog", "complex") else o.get_data
            holder = {}
            def th():
                holder["r"] = getter(npint(rng, s), npint(rng, n))
                return holder["r"]
            def extra():
                if "r" not in holder:
                    return ""
                r = holder["r"]
                rows = [[to_int(v) for v in x] for x in r] if digital else [[to_int(v)] for v in r]
                return "ok " + ("_" if not rows else "|".join(";".join(map(str, x)) for x in rows))
            world.run(f"wget {main} {opt(s)} {opt(n)}", th, main, kind, extra=extra)
        elif op == "pickle":
            nm = world.fresh()
            how = rng.choice(["p2", "p3", "p4", "p5", "deepcopy", "pdefault"])
            def th():
                if how == "deepcopy":
                    c = _copy.deepcopy(o)
                elif how == "pdefault":
                    c = pickle.loads(pickle.dumps(o))
                else:
                    c = pickle.loads(pickle.dumps(o, protocol=int(how[1])))
                world.objs[nm] = (kind, c)
                return c
            rec = world.run(f"wpickle {main} {nm}", th, nm, kind)
            rec["pickle_of"] = main
            rec["how"] = how
        elif op == "bad":
            # malformed stream: wrong-typed arguments never produce a line for the model (TypeError expected)
            which = rng.choice(["append-list", "append-str", "load-list", "timing-obj", "count-float", "append-3d"])
            before = world.full_state()
            try:
                if which == "append-list":
                    o.append([1, 2, 3])
                elif which == "append-str":
                    o.append("abc")
                elif which == "load-list":
                    o.load_data([1, 2])
                elif which == "timing-obj" and kind != "spectrum":
                    o.timing = "nope"
                elif which == "count-float":
                    o.sample_count = 1.5
                elif which == "append-3d":
                    o.append(world.mk_array(tag, world.mk_values(tag, 2, 1, digital), 3))
                else:
                    continue
                e = None
            except Exception as ex:  # noqa: BLE001
                e = ex
            world.records.append({"line": f"bad {which}", "target": main, "kind": kind, "malformed": True,
                                  "err": None if e is None else (base_of(e), type(e).__name__),
                                  "before": before, "after": world.full_state(), "warn": [], "args_changed": False})
    return main


def make_wfm(world: World, name: str, kind: str, tag: int, rows, ncols: int, timing_spec, scale: int, props: dict,
             extra_cap: int = 0, borrowed: bool = False):
    """Construct a waveform holding `rows` (via an array, copy semantics chosen by `borrowed`) and register its line."""
    CLS = world.CLS[kind]
    digital = kind == "digital"
    nd = 2 if digital else 1
    if extra_cap and not borrowed:
        # new-array constructor + load_data would add lines; use the array constructor with trailing slack instead
        pad = [[0] * ncols for _ in range(extra_cap)]
        arr = world.mk_array(tag, rows + pad, nd, "owned")
        cnt = len(rows)
    else:
        arr = world.mk_array(tag, rows, nd, "view" if borrowed else "owned")
        cnt = None
    timing, ttok = world.mk_timing(timing_spec)
    kw = dict(sample_count=cnt, extended_properties=dict(props))
    if kind != "spectrum":
        kw["timing"] = timing
    if kind in ("analog", "complex"):
        kw["scale_mode"] = world.mk_scale(scale)

    def th():
        if digital or kind == "spectrum":
            o = CLS(data=arr, **kw)
        else:
            o = CLS(raw_data=arr, **kw)
        world.objs[name] = (kind, o)
        return o
    line = (f"warr {name} {kind} {world.arr_token(arr)} - 1 - {opt(cnt)} - - {props_token(props)} {ttok} {scale}")
    rec = world.run(line, th, name, kind)
    return None if rec["err"] is not None else world.objs[name][1]


def compare_with_model(ctx, world: World, driver: str = "drivers/Wfm.lean"):
    res = ctx.model(world.lines, driver=driver)
    if res is None:
        return 0
    n = 0
    for line, want, got in zip(world.lines, world.expect, res):
        g = got
        if g.startswith("err "):
            g = "err " + g.split()[-1]
        n += 1
        if g != want:
            ctx.mismatch(stream="waveform-machine " + line.split()[0], request=line[:300], model_says=got[:400], code_says=want[:400])
    return n


# ---------------------------------------------------------------------------------------------------------------------
# borrowed / read-only buffers: single calls from a fixed state (shared by C01, C07, C09, C13)
# ---------------------------------------------------------------------------------------------------------------------

def observe(w):
    """every observable of a waveform / spectrum, as plain data; never raises"""
    try:
        from nitypes.waveform import Spectrum
        data = w.data if hasattr(w, "data") and not hasattr(w, "raw_data") else w.raw_data
        out = {"data": (str(data.dtype), data.shape, data.tobytes()), "count": w.sample_count, "capacity": w.capacity, "start": w.start_index,
               "props": list(w.extended_properties.items())}
        if not isinstance(w, Spectrum):
            t = w.timing
            out["timing"] = (t.sample_interval_mode, t.has_timestamp and t.timestamp, t.has_time_offset and t.time_offset,
                             t.has_sample_interval and t.sample_interval, None if t._timestamps is None else list(t._timestamps), id(t))
        if hasattr(w, "signals"):
            out["names"] = [w.signals[i].name for i in range(w.signal_count)]
            out["signal_count"] = w.signal_count
        if hasattr(w, "scale_mode"):
            out["scale"] = repr(w.scale_mode)
        return out
    except Exception as e:  # noqa: BLE001
        return {"UNOBSERVABLE": f"{type(e).__name__}: {e}"[:200]}


# an ExtendedPropertyDictionary as nitypes 1.0.0 pickled it (slots state without the callback list; the library's own compatibility test
# loads exactly this layout), and a 1.0.1 one (constructor round trip)
LEGACY_EPD = {
    "1.0.0": b"\x80\x04\x95\x88\x00\x00\x00\x00\x00\x00\x00\x8c\x10nitypes.waveform\x94\x8c\x1aExtendedPropertyDictionary\x94\x93\x94)\x81\x94N}\x94\x8c\x0b_properties\x94}\x94(\x8c\x0eNI_ChannelName\x94\x8c\x08Dev1/ai0\x94\x8c\x12NI_UnitDescription\x94\x8c\x05Volts\x94us\x86\x94b.",
    "1.0.1": b"\x80\x04\x95t\x00\x00\x00\x00\x00\x00\x00\x8c\x10nitypes.waveform\x94\x8c\x1aExtendedPropertyDictionary\x94\x93\x94}\x94(\x8c\x0eNI_ChannelName\x94\x8c\x08Dev1/ai0\x94\x8c\x12NI_UnitDescription\x94\x8c\x05Volts\x94u\x85\x94R\x94.",
}


def legacy_dictionary_cases(ctx, judge):
    """Objects whose extended properties come from a pickle written by an earlier release (standalone, handed to a constructor with and
    without copying): every write through the dictionary, the attributes and append either succeeds or changes nothing.
    judge(info, obj, before, outcome, after) is called after every call."""
    import pickle
    import numpy as np
    from nitypes.waveform import AnalogWaveform, ComplexWaveform, DigitalWaveform, Spectrum
    from nitypes.scalar import Scalar
    from nitypes.vector import Vector
    from props.common import outcome
    n = 0

    def epd_obs(d):
        return {"props": list(d.items())}
    makers = [("AnalogWaveform", lambda p, c: AnalogWaveform.from_array_1d(np.array([1.0, 2.0]), np.float64, extended_properties=p, copy_extended_properties=c)),
              ("ComplexWaveform", lambda p, c: ComplexWaveform.from_array_1d(np.array([1 + 2j]), np.complex128, extended_properties=p, copy_extended_properties=c)),
              ("Spectrum", lambda p, c: Spectrum.from_array_1d(np.array([1.0, 2.0]), np.float64, extended_properties=p, copy_extended_properties=c)),
              ("DigitalWaveform", lambda p, c: DigitalWaveform.from_lines(np.array([[0, 1]], np.uint8), extended_properties=p, copy_extended_properties=c))]
    for release, blob in LEGACY_EPD.items():
        # the dictionary on its own
        for label, call in (("d['k'] = 'v'", lambda d: d.__setitem__("k", "v")), ("d['NI_UnitDescription'] = 'A'", lambda d: d.__setitem__(UNITS_KEY, "A")),
                            ("del d['NI_ChannelName']", lambda d: d.__delitem__("NI_ChannelName")), ("d.update(k='v')", lambda d: d.update(k="v")),
                            ("d.pop('NI_ChannelName')", lambda d: d.pop("NI_ChannelName")), ("d.clear()", lambda d: d.clear()), ("d.setdefault('k', 'v')", lambda d: d.setdefault("k", "v"))):
            d = pickle.loads(blob)
            before = epd_obs(d)
            o = outcome(call, d)
            n += 1
            ctx.case(("legacy-dictionary", release, label))
            judge(dict(release=release, object="ExtendedPropertyDictionary", call=label), d, before, o, epd_obs(d))
        for cname, mk in makers:
            for copy_flag in (True, False):
                calls = [("units = 'A'", lambda w: setattr(w, "units", "A")), ("channel_name = 'c'", lambda w: setattr(w, "channel_name", "c")),
                         ("extended_properties['k'] = 'v'", lambda w: w.extended_properties.__setitem__("k", "v")),
                         ("del extended_properties['NI_ChannelName']", lambda w: w.extended_properties.__delitem__("NI_ChannelName")),
                         ("append(object with other properties)", lambda w: w.append(mk({"other": "1"}, True)))]
                for label, call in calls:
                    if label.startswith("units") and cname == "DigitalWaveform":
                        continue
                    r = outcome(mk, pickle.loads(blob), copy_flag)
                    if r[0] != "ok":
                        continue
                    w = r[1]
                    before = observe(w)
                    o = outcome(call, w)
                    n += 1
                    ctx.case(("legacy-dictionary", release, cname, copy_flag, label))
                    judge(dict(release=release, object=cname, copy_extended_properties=copy_flag, call=label), w, before, o, observe(w))
    return n


UNITS_KEY = "NI_UnitDescription"


def borrowed_cases(ctx, judge, quick_subset=False):
    """Run append / load_data / capacity calls on waveforms that borrow memory they cannot resize and/or cannot write
    (views, np.frombuffer(bytes), arrays flagged read-only), full and with spare capacity, in each timing mode.
    judge(info, w, before, outcome, after) is called after every call; info describes the case."""
    import numpy as np
    from nitypes.waveform import AnalogWaveform, ComplexWaveform, DigitalWaveform, Spectrum, Timing
    from props.common import outcome
    t0 = dt.datetime(2025, 1, 1, tzinfo=dt.timezone.utc)
    sec = dt.timedelta(seconds=1)
    n = 0

    def timing_for(kind, count, start=0):
        if kind == "irregular":
            return Timing.create_with_irregular_interval([t0 + (start + i) * sec for i in range(count)])
        if kind == "regular":
            return Timing.create_with_regular_interval(sec, t0)
        return None

    combos = ((AnalogWaveform, np.float64, 1), (ComplexWaveform, np.complex128, 1), (DigitalWaveform, np.uint8, 2),
              (DigitalWaveform, np.uint8, 1), (Spectrum, np.float64, 1))
    for cls, dtype, nd in combos:
        for memory in ("readonly-bytes", "readonly-flag", "readonly-later", "view", "owned"):
            for slack in (0, 3):
                for tk in (("none",) if cls is Spectrum else ("irregular", "regular", "none")):
                    count = 2
                    cols = 2 if nd == 2 else 1
                    total = (count + slack) * cols

                    def build():
                        if memory == "readonly-bytes":
                            buf = np.frombuffer(bytes(total * np.dtype(dtype).itemsize), dtype)
                        elif memory == "readonly-flag":
                            buf = np.zeros(total, dtype); buf.setflags(write=False)
                        elif memory == "view":
                            buf = np.arange(total + 2).astype(dtype)[1:-1]
                        else:
                            buf = (np.arange(total) % 5).astype(dtype)
                        if nd == 2:
                            buf = buf.reshape(count + slack, cols)
                            if memory == "owned":
                                buf = buf.copy()
                        kw = dict(sample_count=count, extended_properties={"k": "v"})
                        kw["data" if cls in (DigitalWaveform, Spectrum) else "raw_data"] = buf
                        tm = timing_for(tk, count)
                        if tm is not None:
                            kw["timing"] = tm
                        w = cls(**kw)
                        if memory == "readonly-later":
                            # the caller write-protects the array it lent, after the waveform was built on it
                            root = buf
                            while isinstance(root.base, np.ndarray):
                                root = root.base
                            root.setflags(write=False)
                            buf.setflags(write=False)
                        return w
                    key = "data" if cls in (DigitalWaveform, Spectrum) else "raw_data"
                    arr = lambda m: np.ones((m, cols) if nd == 2 else m, dtype)   # noqa: E731
                    stamps = lambda m: [t0 + (count + i) * sec for i in range(m)]   # noqa: E731

                    def source(m):
                        kw2 = {key: arr(m), "extended_properties": {"new": "p"}}
                        if cls is not Spectrum and tk != "none":
                            kw2["timing"] = timing_for(tk, m, start=count)
                        return cls(**kw2)
                    calls = []
                    for m in ((1, 5) if quick_subset else (1, 2, 5)):
                        if cls is Spectrum:
                            calls.append((f"append-array-{m}", lambda w, m=m: w.append(arr(m))))
                        else:
                            calls.append((f"append-array-{m}", lambda w, m=m: w.append(arr(m), stamps(m) if tk == "irregular" else None)))
                        calls.append((f"append-waveform-{m}", lambda w, m=m: w.append(source(m))))
                        calls.append((f"append-waveforms-{m}", lambda w, m=m: w.append([source(m), source(0)])))
                        calls.append((f"load-copy-{m}", lambda w, m=m: w.load_data(arr(m)) if tk != "irregular" or m == count else w.load_data(arr(count))))
                    calls.append(("capacity-grow", lambda w: setattr(w, "capacity", count + slack + 4)))
                    for label, call in calls:
                        w = build()
                        before = observe(w)
                        o = outcome(call, w)
                        after = observe(w)
                        n += 1
                        info = dict(cls=cls.__name__, ndim=nd, memory=memory, slack=slack, timing=tk, call=label)
                        ctx.count("borrowed", f"{cls.__name__}:{memory}:{label}:{'rejected' if o[0] == 'err' else 'accepted'}")
                        ctx.case(("borrowed", cls.__name__, nd, memory, slack, tk, label))
                        if judge(info, w, before, o, after) is False:
                            return n
    return n


def warnings_as_errors_cases(ctx, judge):
    """Appends that emit a TimingMismatchWarning / ScalingMismatchWarning, run with warnings turned into errors (-W error,
    pytest filterwarnings=error): the warning then RAISES out of append().  judge(info, w, before, outcome, after, sources_before,
    sources_after) is called after every call."""
    import warnings
    import numpy as np
    from nitypes.waveform import AnalogWaveform, ComplexWaveform, DigitalWaveform, LinearScaleMode, Timing
    from props.common import outcome
    t0 = dt.datetime(2025, 1, 1, tzinfo=dt.timezone.utc)
    sec = dt.timedelta(seconds=1)
    n = 0

    def tim(kind, count, start=0, interval=1):
        if kind == "irregular":
            return Timing.create_with_irregular_interval([t0 + (start + i) * sec for i in range(count)])
        if kind == "regular":
            return Timing.create_with_regular_interval(interval * sec, t0)
        return Timing.create_with_no_interval(t0)
    for cls, dtype in ((AnalogWaveform, np.float64), (ComplexWaveform, np.complex128), (DigitalWaveform, np.uint8)):
        for tk in ("irregular", "regular", "none"):
            for slack in (0, 4):
                for what in ("scale", "interval", "both"):
                    if cls is DigitalWaveform and what != "interval":
                        continue
                    if tk == "irregular" and what == "interval":
                        continue
                    for nsrc in (1, 2, 3):
                        def mk(count, start, scale, interval):
                            kw = {"timing": tim(tk, count, start, interval), "extended_properties": {"k": "v"} if start == 0 else {"new": start}}
                            if cls is DigitalWaveform:
                                buf = np.zeros((count + (slack if start == 0 else 0), 1), dtype)
                                return cls(data=buf, sample_count=count, **kw)
                            buf = np.arange(count + (slack if start == 0 else 0)).astype(dtype)
                            return cls(raw_data=buf, sample_count=count, scale_mode=LinearScaleMode(scale, 0.0), **kw)
                        w = mk(2, 0, 1.0, 1)
                        srcs = []
                        for j in range(nsrc):
                            odd = j == nsrc - 1             # the last source is the one that differs
                            srcs.append(mk(2, 2 + 2 * j, 2.0 if (odd and what in ("scale", "both")) else 1.0, 3 if (odd and what in ("interval", "both")) else 1))
                        before = observe(w)
                        sb = [observe(x) for x in srcs]
                        with warnings.catch_warnings():
                            warnings.simplefilter("error")
                            o = outcome(w.append, srcs[0] if nsrc == 1 else srcs)
                        after = observe(w)
                        sa = [observe(x) for x in srcs]
                        n += 1
                        info = dict(cls=cls.__name__, timing=tk, slack=slack, differs=what, sources=nsrc, warnings="turned into errors")
                        ctx.case(("warnings-as-errors", cls.__name__, tk, slack, what, nsrc))
                        ctx.count("warnings-as-errors", "raised" if o[0] == "err" else "returned")
                        if judge(info, w, before, o, after, sb, sa) is False:
                            return n
    return n


def narrow_scalar_cases(ctx, report):
    """Sizes, indices and counts given as NARROW NumPy integer scalars (uint8, int8, uint16, int16) whose sums with each other or with
    the object's geometry do not fit their own type: the call must do exactly what it does for the same numbers as Python ints
    (same outcome class, same state afterwards).  report(info, observed, required) is called for every difference."""
    import numpy as np
    from nitypes.waveform import AnalogWaveform, ComplexWaveform, DigitalWaveform, Spectrum
    from props.common import outcome
    n = 0
    combos = ((AnalogWaveform, np.float64, False), (ComplexWaveform, np.complex128, False), (DigitalWaveform, np.uint8, True), (Spectrum, np.float64, False))
    quads = [(np.uint8, 250, 200, 100), (np.uint8, 300, 200, 100), (np.uint8, 300, 200, 56), (np.int8, 120, 112, 31), (np.int8, 200, 100, 100),
             (np.uint16, 65000, 60000, 10000), (np.int16, 40000, 30000, 10000), (np.uint8, 255, 255, 1), (np.uint8, 256, 255, 1)]
    for cls, dtype, digital in combos:
        getter = "get_raw_data" if hasattr(cls, "get_raw_data") else "get_data"
        for T, length, a, b in quads:
            src = (np.arange(length) % 2).astype(dtype).reshape(-1, 1) if digital else np.arange(length).astype(dtype)

            def fresh(cap=3):
                return cls(cap, 1, dtype) if digital else cls(cap, dtype)
            calls = [("load_data(start_index, sample_count)", lambda w, x, y: w.load_data(src, start_index=x, sample_count=y)),
                     ("load_data(copy=False)", lambda w, x, y: w.load_data(src, copy=False, start_index=x, sample_count=y)),
                     (getter, lambda w, x, y: (w.load_data(src), len(getattr(w, getter)(x, y)))[1]),
                     ("constructor(sample_count, start_index, capacity)", lambda w, x, y: (cls(y, 1, dtype, start_index=x, capacity=length) if digital
                                                                                          else cls(y, dtype, start_index=x, capacity=length)).sample_count)]
            if cls is not Spectrum:
                calls.append(("sample_count setter after start_index", lambda w, x, y: (w.load_data(src, copy=False, start_index=x, sample_count=0), setattr(w, "sample_count", y))[1]))
            for label, call in calls:
                wn, wp = fresh(), fresh()
                on, op = outcome(call, wn, T(a), T(b)), outcome(call, wp, int(a), int(b))
                sn, sp = observe(wn), observe(wp)
                n += 1
                ctx.case(("narrow-scalar", cls.__name__, label, T.__name__, length, a, b))
                same = (on[0] == op[0]) and (on[1] == op[1] if on[0] == "err" else (on[1] == op[1] or on[1] is None)) and sn == sp
                if not same:
                    report(dict(cls=cls.__name__, call=label, scalar_type=T.__name__, array_length=length, first=a, second=b),
                           f"{str(on)[:100]}; count {sn.get('count')} capacity {sn.get('capacity')}", f"{str(op)[:100]}; count {sp.get('count')} capacity {sp.get('capacity')} (the same call with Python ints)")
    return n
