"""C06 — Port data unpacks to the documented bit / line / signal mapping."""
from __future__ import annotations

from props.common import outcome, show, norm_model, render, translation_validation

PID = "C06"
LEAN_MODULE = "NiVerif.Props.C06"
NAMESPACE = "Props.C06"
DRIVER = "drivers/C06.lean"
GEN_MODULES = ["Port", "PortLine"]
THEOREMS = ["lt_two_pow_bitLen", "filter_range_succ", "colLoop_spec", "columns_spec", "negative_mask_ValueError",
            "signal_count_popcount", "setBits_lt", "pick_little", "pick_big", "line_data_partial", "setBits_full",
            "line_data_full", "mask_too_wide_rejected", "signal_bit", "port_width_of_mask",
            "gen_columns_eq_model", "gen_columns_spec", "gen_negative_mask_ValueError",
            "gen_port_to_line_eq_model"]
RULE = ("8-bit ports: every sample value x every mask 0..255 (and masks beyond the width) x both bit orders, "
        "exhaustively; 16-bit: all masks on a value sample (all 65 536 values on selected masks in thorough); 32-bit: "
        "sparse/high-bit masks; inputs as list, native, byte-swapped ('>u2','>u4'), strided and read-only arrays, "
        "from_ports rows incl. column-sliced sources; three state dtypes; start_index/sample_count windows; each "
        "compared with the property's bit formula (oracle) and with Model/Port.lean; non-trivial = mask != 0")
TRUSTED = ["hand model NiVerif/Model/Port.lean of port_to_line_data / from_port (bit_mask, _get_port_dtype and the loop of "
           "_mask_to_column_indices are regenerated; gen_columns_eq_model proves the model's loop equal to the generated one); NumPy ascontiguousarray/view/unpackbits/fancy indexing are collapsed to "
           "'a function of the integer values' and exercised by the correspondence"]
ASSUMPTIONS = ["the model consumes integer sample values; independence from byte order / strides is established by "
               "running the real code on every representation (tie), not by a theorem"]


def expected_rows(values, width, mask, big):
    """The property's bit formula: signal i = i-th lowest (big) / highest (little) set bit; column c = signal n-1-c."""
    bits = [b for b in range(width) if (mask >> b) & 1]
    n = len(bits)
    rows = []
    for v in values:
        sig = [(v >> (bits[i] if big else bits[n - 1 - i])) & 1 for i in range(n)]
        rows.append([sig[n - 1 - c] for c in range(n)])
    return rows


def run(ctx):
    import numpy as np
    from nitypes.waveform import DigitalWaveform as W
    from nitypes.waveform._digital._port import _get_port_dtype, bit_mask
    rng = ctx.rng
    reqs = []

    def check(arr, values, width, mask, big, dtype=None, start=None, count=None, kind="ndarray", widthtok=None):
        kw = {"bitorder": "big" if big else "little"}
        if start is not None: kw["start_index"] = start
        if count is not None: kw["sample_count"] = count
        o = outcome(lambda: W.from_port(arr, mask, dtype, **kw))
        m = (2 ** width - 1) if mask is None else mask
        s0 = 0 if start is None else start
        # expectation from the property text
        if mask is not None and mask < 0:
            want = ("err", "ValueError")
        elif m > 2 ** width - 1:
            want = ("reject-or-ignore", None)
        else:
            rows = expected_rows(values, width, m, big)
            n0 = (len(rows) - s0) if count is None else count
            if s0 < 0 or n0 < 0 or s0 > len(rows) or s0 + n0 > len(rows):
                want = ("err", "ValueError")
            else:
                want = ("ok", rows[s0:s0 + n0])
        if o[0] == "ok":
            w = o[1]
            data = w.data
            got = ("ok", [[int(x) for x in r] for r in data])
            nsig = w.signal_count
            okdtype = data.dtype == np.dtype(np.uint8 if dtype is None else dtype)
            sigs_ok = all([int(x) for x in w.signals[i].data] == [r[nsig - 1 - i] for r in got[1]] for i in range(nsig))
            if not okdtype or not sigs_ok or data.shape[1:] != (nsig,):
                ctx.violation(what="dtype/signals", mask=mask, observed=str(data.dtype), required="requested state dtype; signals[i].data = column n-1-i")
        else:
            got = ("err", o[1])
        if want[0] == "reject-or-ignore":
            ign = expected_rows(values, width, m & (2 ** width - 1), big)
            if not (got[0] == "err" or got == ("ok", ign)):
                ctx.violation(what="mask beyond port width", width=width, mask=mask, big=big, observed=str(got)[:200],
                              required="rejected or extra bits ignored, never a fabricated signal")
        elif got != want:
            ctx.violation(what="from_port", kind=kind, width=width, mask=mask, big=big, values=values[:8], start=start,
                          count=count, observed=str(got)[:300], required=str(want)[:300])
        f = lambda x: "-" if x is None else str(x)
        text = ("ok " + render(got[1])) if got[0] == "ok" else "err " + got[1]
        reqs.append((f"port {'big' if big else 'little'} {f(widthtok if widthtok != 'w' else width)} {f(mask)} {f(start)} {f(count)} {render(list(values))}", text))
        ctx.case((kind, width, mask, big, tuple(values[:6]), start, count), nontrivial=bool(m))
        ctx.count("input", kind)
        ctx.count("outcome", got[0] if got[0] == "ok" else got[1])

    # ---- 8-bit: all values x all masks x both orders (values batched into one array per mask) -------------
    vals8 = list(range(256))
    masks8 = list(range(256)) + [256, 511, 0x1FF, 0x100, 1 << 12, -1, -255]
    for mask in masks8 if not ctx.quick else masks8[::3] + [255, 256, 511, -1]:
        for big in (True, False):
            check(np.array(vals8, np.uint8), vals8, 8, mask, big, widthtok="w")
    ctx.exhaustive = not ctx.quick
    # ---- 16-bit: all masks on a sample of values; selected masks on all values (thorough) ------------------
    v16 = [0, 1, 0x8000, 0xFFFF, 0x1234, 0xFF00, 0x00FF] + [rng.randrange(1 << 16) for _ in range(9)]
    m16 = list(range(0, 1 << 16, 257 if ctx.quick else 7)) + [0xFFFF, 0x8000, 0x0100, 0x1_0000, 0x1_FFFF]
    for mask in m16:
        big = rng.random() < 0.5
        check(np.array(v16, np.uint16), v16, 16, mask, big, widthtok="w")
    if not ctx.quick:
        allv = list(range(1 << 16))
        for mask in [0xFFFF, 0x8001, 0x0FF0] + [rng.randrange(1 << 16) for _ in range(8)]:
            for big in (True, False):
                check(np.array(allv, np.uint16), allv, 16, mask, big, widthtok="w")
    # ---- 32-bit: sparse and high-bit masks -------------------------------------------------------------------
    for _ in range(60 if ctx.quick else 3000):
        vals = [rng.choice([0, 1, 0x80000000, 0xFFFFFFFF, 0xDEADBEEF, rng.randrange(1 << 32)]) for _ in range(rng.randint(0, 5))]
        mask = rng.choice([0xFFFFFFFF, 0x80000000, 0xFF000000, 0xDEADBEEF, 1 << rng.randrange(32), rng.randrange(1 << 32),
                           rng.randrange(1 << 32) & rng.randrange(1 << 32), 1 << 32, None])
        check(np.array(vals, np.uint32), vals, 32, mask, rng.random() < 0.5, widthtok="w")
    # ---- masks made of whole bytes / nibbles, every pattern (a selection that is contiguous in memory, or has holes between selected
    # bytes, is where byte-wise shortcuts differ from the bit formula), on 16- and 32-bit ports, both orders, list and array inputs
    for width, base in ((16, np.uint16), (32, np.uint32)):
        nb = width // 8
        vals = [0x12345678 & (2 ** width - 1), 2 ** width - 1, 0, 0x80C4A2E1 & (2 ** width - 1), rng.randrange(1 << width)]
        pats = [sum(0xFF << (8 * i) for i in range(nb) if (p >> i) & 1) for p in range(1, 2 ** nb)]
        pats += [sum(0xF << (4 * i) for i in range(2 * nb) if (p >> i) & 1) for p in ([rng.randrange(1, 2 ** (2 * nb)) for _ in range(12)] + [0b0101, 0b1001, 2 ** (2 * nb) - 2])]
        for mask in pats:
            for big in (False, True):
                check(np.array(vals, base), vals, width, mask, big, widthtok="w")
                if mask >= 2 ** (width // 2):                       # a list takes its width from the mask
                    check(list(vals), vals, width, mask, big, kind="list", widthtok=None)
    # ---- long acquisitions (whatever the implementation does for large inputs: chunking, low-memory paths): the same bit formula,
    # evaluated with NumPy; sizes around the powers of two where such paths usually switch
    for case in range(8 if ctx.quick else 60):
        width = (8, 16, 32)[case % 3]
        base = {8: np.uint8, 16: np.uint16, 32: np.uint32}[width]
        nsamp = rng.choice([1 << 15, (1 << 15) + 1, (1 << 16) + 3, (1 << 17) + 5, 140000, 70000, 40000, 300001] if not ctx.quick else
                           [(1 << 15) + 1, (1 << 16) + 3, (1 << 17) + 5, 140000])
        vals = np.random.default_rng(ctx.seed * 1000 + case).integers(0, 1 << width, nsamp, dtype=np.uint64).astype(base)
        mask = rng.choice([rng.randrange(1, (1 << width) - 1), 0x0F % (1 << width), (1 << (width - 1)) | 1, 0xF00F & ((1 << width) - 1) or 9])
        big = case % 2 == 0
        bits = [b for b in range(width) if (mask >> b) & 1]
        nb = len(bits)
        sig_bits = bits if big else bits[::-1]                    # signal i <- bit sig_bits[i]
        col_bits = np.array([sig_bits[nb - 1 - c] for c in range(nb)], dtype=np.uint64)     # column c is signal n-1-c
        want = ((vals.astype(np.uint64)[:, None] >> col_bits[None, :]) & 1).astype(np.uint8)
        how = rng.choice(["from_port", "from_port", "from_ports", "list"])
        if how == "from_ports":
            o = outcome(lambda: W.from_ports(np.stack([vals, vals[::-1]]), [mask, mask], bitorder="big" if big else "little"))
            got = None if o[0] != "ok" else [np.asarray(w.data) for w in o[1]]
            ok = got is not None and np.array_equal(got[0], want) and np.array_equal(got[1], want[::-1])
        else:
            src = vals if how == "from_port" else vals.tolist()
            if how == "list" and mask < (1 << (width // 2 if width > 8 else 0)):
                src = vals             # a sequence takes its width from the mask; keep the array form when that would change the width
            o = outcome(lambda: W.from_port(src, mask, bitorder="big" if big else "little"))
            got = None if o[0] != "ok" else np.asarray(o[1].data)
            ok = got is not None and got.shape == want.shape and np.array_equal(got, want)
        ctx.case(("long", width, mask, big, nsamp, how))
        ctx.count("input", "long-" + how)
        if not ok:
            bad = None
            if o[0] == "ok" and how != "from_ports" and got.shape == want.shape:
                bad = tuple(int(x) for x in np.argwhere(got != want)[0])
            ctx.violation(what="from_port on a long acquisition", how=how, width=width, mask=mask, big=big, samples=nsamp, first_wrong=bad,
                          observed=(show(o)[:160] if o[0] != "ok" else (f"shape(s) {[np.shape(g) for g in got] if isinstance(got, list) else got.shape}; differs from the bit formula" if bad is None
                                                                         else f"sample {int(vals[bad[0]])} column {bad[1]} -> {int(got[bad])}")),
                          required="the bit formula of the property" if bad is None else f"{int(want[bad])}")
    # ---- representations: list, byte-swapped, strided, read-only; state dtypes; windows -------------------------
    for _ in range(250 if ctx.quick else 8000):
        width = rng.choice([8, 16, 32])
        vals = [rng.randrange(1 << width) for _ in range(rng.randint(0, 6))]
        mask = rng.choice([None, 2 ** width - 1, rng.randrange(1 << width), rng.randrange(1 << width) & rng.randrange(1 << width), 0])
        big = rng.random() < 0.5
        dtype = rng.choice([None, np.uint8, np.int8, np.bool_])
        start = rng.choice([None, None, 0, 1, 2, len(vals), len(vals) + 1, -1])
        count = rng.choice([None, None, 0, 1, 2, len(vals), max(0, len(vals) - (start or 0)), len(vals) + 1, -1])
        kind = rng.choice(["list", "native", "swapped", "strided", "readonly", "tuple", "bytearray", "memoryview", "array.array", "range"])
        base = {8: np.uint8, 16: np.uint16, 32: np.uint32}[width]
        if kind in ("list", "tuple", "bytearray", "memoryview", "array.array", "range"):
            if mask is None:
                mask = 2 ** width - 1
            # the port width of a sequence comes from the mask; a sequence is a sequence of sample VALUES whatever buffer it may export
            w2 = 8 if mask < 256 else 16 if mask < 65536 else 32
            vals2 = [v & (2 ** w2 - 1) for v in vals]
            if kind in ("bytearray", "memoryview"):
                vals2 = [v & 0xFF for v in vals2]                       # byte-valued samples on a port of any width
                arr = bytearray(vals2) if kind == "bytearray" else memoryview(bytearray(vals2))
            elif kind == "array.array":
                import array as _array
                code = rng.choice(["B", "H", "I"])
                vals2 = [v & (2 ** (8 * _array.array(code).itemsize) - 1) for v in vals2]
                arr = _array.array(code, vals2)
            elif kind == "range":
                lo = rng.randrange(0, 2 ** w2 - 8)
                vals2 = list(range(lo, lo + len(vals)))
                arr = range(lo, lo + len(vals))
            else:
                arr = list(vals2) if kind == "list" else tuple(vals2)
            check(arr, vals2, w2, mask, big, dtype, start, count, kind, widthtok=None)
            continue
        if kind == "native":
            arr = np.array(vals, base)
        elif kind == "swapped":
            arr = np.array(vals, base).astype(np.dtype(base).newbyteorder(">" if np.dtype(base).byteorder in ("=", "<", "|") else "<"))
        elif kind == "strided":
            buf = np.zeros(len(vals) * 3 + 1, base)
            buf[::3][: len(vals)] = vals
            buf[1::3] = 0xAB
            arr = buf[::3][: len(vals)] if rng.random() < 0.5 else np.array(vals[::-1], base)[::-1]
        else:
            arr = np.array(vals, base)
            arr.setflags(write=False)
        check(arr, vals, width, mask, big, dtype, start, count, kind, widthtok="w")
    # ---- from_ports (2-D), including column-sliced sources -------------------------------------------------------
    for _ in range(60 if ctx.quick else 2000):
        width = rng.choice([8, 16, 32])
        base = {8: np.uint8, 16: np.uint16, 32: np.uint32}[width]
        nports, ns = rng.randint(1, 3), rng.randint(0, 4)
        mat = [[rng.randrange(1 << width) for _ in range(ns)] for _ in range(nports)]
        masks = [rng.choice([2 ** width - 1, rng.randrange(1 << width)]) for _ in range(nports)]
        # a third of the calls carry, for one port, a mask the port cannot hold: just beyond the width, far beyond, negative
        wide_at = rng.randrange(nports) if rng.random() < 0.33 else None
        if wide_at is not None:
            masks[wide_at] = rng.choice([1 << width, (1 << (width + 1)) - 1, (1 << width) | rng.randrange(1 << width),
                                         (1 << (2 * width - 1)) | 1, -1, -rng.randrange(1, 1 << width)]
                                        + ([0x1FF, 0x100] if width == 8 else []))
        big = rng.random() < 0.5
        src = np.array(mat, base).reshape(nports, ns)
        if rng.random() < 0.4:
            wide = np.zeros((nports, ns * 2 + 1), base)
            wide[:, ::2][:, :ns] = src
            src = wide[:, ::2][:, :ns]
        o = outcome(lambda: W.from_ports(src, masks, bitorder="big" if big else "little"))
        got = [[[int(x) for x in r] for r in w.data] for w in o[1]] if o[0] == "ok" else o
        if wide_at is None:
            want = [expected_rows(mat[p], width, masks[p], big) for p in range(nports)]
            if got != want:
                ctx.violation(what="from_ports", width=width, masks=masks, big=big, observed=str(got)[:300], required=str(want)[:300])
        elif masks[wide_at] < 0:
            if o[:2] != ("err", "ValueError"):
                ctx.violation(what="from_ports negative mask", width=width, masks=masks, big=big, observed=show(o)[:200], required="ValueError")
        else:
            ign = [expected_rows(mat[p], width, masks[p] & (2 ** width - 1), big) for p in range(nports)]
            if not (o[0] == "err" or got == ign):
                ctx.violation(what="from_ports mask beyond port width", width=width, masks=masks, big=big, values=mat, observed=str(got)[:300],
                              required="rejected or extra bits ignored, never a fabricated signal")
        ctx.count("from_ports", "in-range masks" if wide_at is None else "negative mask" if masks[wide_at] < 0 else "mask beyond width")
        ctx.case(("ports", width, tuple(masks), big, str(mat)))
    # ---- acquisitions with no samples at all: the mask rules are the same (a mask beyond the width is rejected or ignored, the
    # signal count is the number of mask bits inside the port) ------------------------------------------------------------------
    for width, base in ((8, np.uint8), (16, np.uint16), (32, np.uint32)):
        for mask in (0, 1, (1 << width) - 1, 0x0F, 1 << width, (1 << (width + 1)) - 1, (1 << width) | 0x0F, 1 << (2 * width - 1), -1):
            for big in (True, False):
                for how in ("from_port", "from_ports", "list"):
                    kw = {"bitorder": "big" if big else "little"}
                    if how == "from_port":
                        o = outcome(lambda: [W.from_port(np.array([], base), mask, **kw)])
                    elif how == "from_ports":
                        o = outcome(lambda: W.from_ports(np.empty((2, 0), base), [mask, mask], **kw))
                    else:
                        o = outcome(lambda: [W.from_port([], mask, **kw)])
                    inside = bin(mask & ((1 << width) - 1)).count("1") if mask >= 0 else None
                    ctx.case(("empty", width, mask, big, how))
                    if mask < 0:
                        if o[:2] != ("err", "ValueError"):
                            ctx.violation(what="negative mask on an empty acquisition", how=how, width=width, mask=mask, observed=show(o)[:120], required="ValueError")
                    elif how == "list":
                        # a sequence takes its width from the mask: nothing to compare it with; it must simply have one signal per mask bit
                        if o[0] == "ok" and (o[1][0].signal_count != bin(mask).count("1") or o[1][0].sample_count != 0):
                            ctx.violation(what="empty sequence", mask=mask, observed=f"{o[1][0].signal_count} signals", required=f"{bin(mask).count('1')} signals, 0 samples")
                    elif mask > (1 << width) - 1:
                        if not (o[0] == "err" or all(w_.signal_count == inside and w_.sample_count == 0 for w_ in o[1])):
                            ctx.violation(what="mask beyond port width on an empty acquisition", how=how, width=width, mask=mask, big=big,
                                          observed=f"{[w_.signal_count for w_ in o[1]]} signals", required=f"rejected, or {inside} signals (extra bits ignored), never a fabricated signal")
                    elif o[0] != "ok" or any(w_.signal_count != inside or w_.sample_count != 0 or w_.data.shape != (0, inside) for w_ in o[1]):
                        ctx.violation(what="empty acquisition", how=how, width=width, mask=mask, big=big, observed=show(o)[:120] if o[0] != "ok" else f"{[w_.data.shape for w_ in o[1]]}",
                                      required=f"(0, {inside})")
    # ---- one acquisition buffer used again and again (refilled in place between the calls, the usual way to read a device in a loop),
    #      for from_port and from_ports, alternating masks and bit orders or not: every waveform shows the contents at the time of ITS call,
    #      and waveforms made earlier keep theirs -------------------------------------------------------------------------------------------
    for width, T in ((8, np.uint8), (16, np.uint16), (32, np.uint32)):
        for schedule in ("same mask", "alternating masks", "alternating bit orders"):
            buf = np.zeros(5, T)
            buf2 = np.zeros((2, 4), T)
            made = []
            for round_ in range(4):
                vals = [int(rng.getrandbits(width)) for _ in range(5)]
                how = ("slice-assign", "item-assign", "in-place add", "copyto")[round_ % 4]
                if how == "slice-assign": buf[:] = vals
                elif how == "item-assign":
                    for k_, v_ in enumerate(vals): buf[k_] = v_
                elif how == "in-place add": buf[:] = 0; buf += np.array(vals, T)
                else: np.copyto(buf, np.array(vals, T))
                mask = (0x0F, 0xF0)[round_ % 2] if schedule == "alternating masks" else 0x3C
                bo = ("big", "little")[round_ % 2] if schedule == "alternating bit orders" else "big"
                o = outcome(lambda: W.from_port(buf, mask, bitorder=bo))
                want = expected_rows(vals, width, mask, bo == "big")
                ctx.case(("reused-buffer", width, schedule, round_))
                if o[0] != "ok" or [[int(x) for x in r] for r in o[1].data] != want:
                    ctx.violation(what="from_port on a refilled acquisition buffer", width=width, schedule=schedule, call=round_ + 1, refilled_by=how, values=vals,
                                  observed=show(o)[:100] if o[0] != "ok" else str([[int(x) for x in r] for r in o[1].data])[:200], required=str(want)[:200])
                    break
                made.append((o[1], want))
            for round_ in range(3):
                mask = (0x0F, 0xF0)[round_ % 2] if schedule == "alternating masks" else 0x3C
                bo = ("big", "little")[round_ % 2] if schedule == "alternating bit orders" else "big"
                vals2 = [[int(rng.getrandbits(width)) for _ in range(4)] for _ in range(2)]
                buf2[:] = vals2
                o2 = outcome(lambda: W.from_ports(buf2, [mask, mask ^ 0xFF], bitorder=bo))
                want2 = [expected_rows(vals2[0], width, mask, bo == "big"), expected_rows(vals2[1], width, mask ^ 0xFF, bo == "big")]
                if o2[0] != "ok" or [[[int(x) for x in r] for r in w_.data] for w_ in o2[1]] != want2:
                    ctx.violation(what="from_ports on a refilled acquisition buffer", width=width, schedule=schedule, call=round_ + 1, values=vals2,
                                  observed=show(o2)[:100] if o2[0] != "ok" else str([[[int(x) for x in r] for r in w_.data] for w_ in o2[1]])[:200], required=str(want2)[:200])
                    break
            for w_, want in made:
                if [[int(x) for x in r] for r in w_.data] != want:
                    ctx.violation(what="a waveform made from an acquisition buffer changed when the buffer was refilled", width=width, schedule=schedule,
                                  observed=str([[int(x) for x in r] for r in w_.data])[:200], required=str(want)[:200])
                    break
    # ---- signals looked up by name and by position in any order give the same signals --------------------------------------------
    for case in range(40 if ctx.quick else 1000):
        width = rng.choice([8, 16])
        base = {8: np.uint8, 16: np.uint16}[width]
        mask = rng.choice([0x07, 0x0F, 0x35, 0xFF, rng.randrange(1, 1 << width)])
        nsig = bin(mask).count("1")
        vals = [rng.randrange(1 << width) for _ in range(rng.randint(1, 4))]
        big = rng.random() < 0.5
        names = [f"col{c}" for c in range(nsig)]                # NI_LineNames lists the data columns left to right
        wv = W.from_port(np.array(vals, base), mask, bitorder="big" if big else "little", extended_properties={"NI_LineNames": ", ".join(names)})
        rows = expected_rows(vals, width, mask, big)
        order = [("name", names[rng.randrange(nsig)]) for _ in range(rng.randint(0, 2))] + [("int", rng.randrange(-nsig, nsig)) for _ in range(rng.randint(1, 3))]
        rng.shuffle(order)
        order += [("iter", None), ("name", names[0]), ("int", 0), ("slice", None)]
        for kind, key in order:
            if kind == "name":
                sg = [wv.signals[key]]; want_cols = [names.index(key)]
            elif kind == "int":
                sg = [wv.signals[key]]; want_cols = [nsig - 1 - (key % nsig)]
            elif kind == "iter":
                sg = list(wv.signals); want_cols = [nsig - 1 - i for i in range(nsig)]
            else:
                sg = list(wv.signals[0:nsig]); want_cols = [nsig - 1 - i for i in range(nsig)]
            for s_, c in zip(sg, want_cols):
                got = (s_.column_index, s_.signal_index, [int(x) for x in s_.data], s_.name)
                want = (c, nsig - 1 - c, [r[c] for r in rows], names[c])
                if got != want:
                    ctx.violation(what="signals[...] after lookups by name and by position", mask=mask, big=big, lookups=str(order)[:160], key=f"{kind}:{key}",
                                  observed=str(got)[:200], required=str(want)[:200])
                    break
        ctx.case(("lookup-order", mask, big, str(order)[:80]))
    # ---- translation validation of the regenerated kernels --------------------------------------------------------
    tvc = [("Port.bit_mask", [n], (lambda n=n: bit_mask(n)), True) for n in list(range(-3, 40)) + [64, 100]]
    mv = [0, 1, 255, 256, 65535, 65536, 2 ** 32 - 1, 2 ** 32, 2 ** 40, -1, -256, 0x1FF, 0xDEADBEEF] + \
         [rng.randrange(1 << 34) for _ in range(200)]
    tvc += [("Port._get_port_dtype", [m], (lambda m=m: _get_port_dtype(m).itemsize * 8), True) for m in mv]
    # the generated `while mask != 0` loop (tier T8) against the function it was generated from
    from nitypes.waveform._digital._port import _mask_to_column_indices
    for m in [0, 1, 2, 0xF, 0x100, 0xDEADBEEF, 0xFFFFFFFF, 1 << 40, -1, -5] + [rng.randrange(1 << rng.choice([4, 8, 16, 32, 33])) for _ in range(120)]:
        for w in (8, 16, 32, 3):
            for big in (1, 0):
                tvc.append(("Port._mask_to_column_indices", [m, w, big],
                            (lambda m=m, w=w, big=big: _mask_to_column_indices(m, w, "big" if big else "little")), True))
    ctx.extra["translation_validation_cases"] = translation_validation(ctx, tvc)
    res = ctx.model([q for q, _ in reqs])
    if res is not None:
        for (q, want), got in zip(reqs, res):
            if norm_model(got) != want:
                ctx.mismatch(stream="from_port", request=q[:200], model_says=got[:200], code_says=want[:200])
    ctx.extra["model_comparisons"] = len(reqs)
    for q, w in reqs[300:: max(1, len(reqs) // 6)][:6]:
        ctx.sample({"request": q[:160], "response": w[:160]})


def replay(doc):
    print(doc.get("input"))
    return 0
