"""C08 — Timing yields exactly the requested timestamps, without drift, or refuses."""
from __future__ import annotations

from props.common import outcome, show, norm_model, render, I128_MIN, I128_MAX

PID = "C08"
LEAN_MODULE = "NiVerif.Props.C08"
NAMESPACE = "Props.C08"
DRIVER = "drivers/C08.lean"
GEN_MODULES = ["Irregular", "Regular", "GetTimestamps"]
THEOREMS = ["genLoop_spec", "regular_kth", "genLoop_err", "regular_refuses_only_on_range", "start_time_spec",
            "irregular_window", "irregular_exact", "irregular_beyond_ValueError", "no_info_error",
            "negative_args_ValueError", "monoLoop_spec", "mono_iff", "irregular_ctor_accepts_iff",
            "gen_direction_eq", "gen_loop_eq", "gen_monotonic_eq_model", "gen_monotonic_iff", "genLoop_succ", "genRange_adv", "gen_regular_eq_model", "gen_regular_spec", "gen_regular_err",
            "gen_start_time_eq_model", "gen_get_timestamps_eq_model"]
RULE = ("Timing objects of the three families (datetime µs, hightime ys, bintime ticks) in the three modes with seeded "
        "timestamps/offsets/intervals (negative, sub-microsecond, one-tick, near the range limits), start indices up "
        "to 10^12 and counts 0..8; list(get_timestamps(i,n)) and start_time on the real objects against exact integer "
        "arithmetic (oracle) and against Model/Timing.lean; irregular windows in every relation to the stored count; "
        "monotonicity scan on adversarial sequences (plateaus, single reversal); non-trivial = distinct request")
TRUSTED = ["hand model NiVerif/Model/Timing.lean (get_timestamps / generator loop / monotonicity scan, family ranges); "
           "exactness of same-family datetime arithmetic is C03's result and CPython/hightime behaviour (modelled)"]
ASSUMPTIONS = ["members of one Timing are all of one family (the property's quantifier); mixed-family members are not claimed"]


def mk(tv, fam, kind, n):
    return tv.from_model({"dt": "dt", "ht": "ht", "bt": "bt"}[fam] + kind, n)


def val(tv, x):
    return tv.to_model(x)[1]


def gen_abs(rng, tv, fam):
    if fam == "dt":
        return tv.gen_dt_abs(rng)
    if fam == "ht":
        return tv.gen_ht_abs(rng)
    c = rng.random()
    if c < 0.1:
        return rng.choice([I128_MIN, I128_MAX, I128_MAX - 5, I128_MIN + 5, 0])
    return tv.gen_bt_dt_ticks(rng)


def gen_rel(rng, tv, fam):
    c = rng.random()
    unit = {"dt": 1, "ht": 1, "bt": 1}[fam]
    if c < 0.35:
        return rng.choice([0, 1, -1, 2, 3, -7, 333333, 10**6, -10**6, (1 << 64) // 3, 54210, 1 << 64])
    if c < 0.7:
        return rng.randint(-10**9, 10**9) * unit
    if fam == "dt":
        return tv.gen_dt_td(rng)
    if fam == "ht":
        return tv.gen_ht_td(rng)
    return rng.randint(-(1 << 100), 1 << 100)


FAMR = {"dt": None, "ht": None, "bt": (I128_MIN, I128_MAX + 1, I128_MIN, I128_MAX + 1)}


def run(ctx):
    import props.timeval as tv
    from nitypes.waveform import SampleIntervalMode, Timing
    from nitypes.waveform._timing._sample_interval._irregular import _are_timestamps_monotonic
    rng = ctx.rng
    FAMR["dt"] = (0, tv.DT_ABS_MAX, tv.DT_TD_MIN, tv.DT_TD_MAX + 1)
    FAMR["ht"] = (0, tv.HT_ABS_MAX, tv.HT_TD_MIN, tv.HT_TD_MAX + 1)
    A = {"dt": "dtDt", "ht": "htDt", "bt": "btDt"}
    R = {"dt": "dtTd", "ht": "htTd", "bt": "btTd"}
    reqs = []

    def exp_regular(fam, ts, off, si, i, n):
        alo, ahi, rlo, rhi = FAMR[fam]
        st = ts if off is None else ts + off
        if not alo <= st < ahi:
            return "err OverflowError"
        d = i * si
        if not rlo <= d < rhi:
            return "err OverflowError"
        t = st + d
        if not alo <= t < ahi:
            return "err OverflowError"
        out = []
        for k in range(n):
            if k:
                t += si
                if not alo <= t < ahi:
                    return "err OverflowError"
            out.append(t)
        return "ok " + render(out)

    n_cases = 600 if ctx.quick else 30000
    n_limit = 200 if ctx.quick else 6000
    for case in range(n_cases + n_limit):
        fam = rng.choice(["dt", "ht", "bt"])
        ts, off, si = gen_abs(rng, tv, fam), (gen_rel(rng, tv, fam) if rng.random() < 0.5 else None), gen_rel(rng, tv, fam)
        i = rng.choice([0, 1, 2, 5, 1000, 10**6, 10**12, rng.randint(0, 10**9), -1, -5])
        n = rng.choice([0, 1, 2, 3, 5, 8, -1])
        if case >= n_cases and case % 2:
            # the LAST requested timestamp is the last one the family can represent in that direction: one more step would
            # leave the range, so a generator that computes anything beyond what was asked for fails here
            fam = rng.choice(["dt", "ht"])
            alo, ahi, _, _ = FAMR[fam]
            unit = rng.choice([1, 10**3, 10**6, 3_600_000_000])
            step = rng.randint(1, 9) * unit
            i = rng.randint(0, 12)
            n = rng.randint(1, 5)
            r = rng.randint(0, step - 1)
            off = rng.choice([None, 0, 5 * unit, -7 * unit])
            if rng.random() < 0.5:
                si = step
                ts = ahi - 1 - r - (i + n - 1) * step - (off or 0)
            else:
                si = -step
                ts = alo + r + (i + n - 1) * step - (off or 0)
        elif case >= n_cases:
            # every exact result in range, but only just: the timestamp sits next to a limit of its family and the offset
            # pulls away from it, so any other order of the additions leaves the range on the way
            fam = rng.choice(["dt", "ht"])
            alo, ahi, _, _ = FAMR[fam]
            unit = rng.choice([1, 10**3, 10**6, 3_600_000_000])
            r = rng.randint(0, 50) * unit
            i = rng.randint(0, 12)
            n = rng.randint(1, 4)
            step = rng.randint(1, 9) * unit
            back = (i + n) * step + rng.randint(0, 5) * unit
            if rng.random() < 0.5:
                ts, off, si = ahi - 1 - r, -(back + r), step        # near the upper limit, negative offset, positive interval
            else:
                ts, off, si = alo + r, back + r, -step             # near the lower limit, positive offset, negative interval
        try:
            timing = Timing.create_with_regular_interval(tv.from_model(R[fam], si), tv.from_model(A[fam], ts),
                                                         None if off is None else tv.from_model(R[fam], off))
        except OverflowError:
            continue
        o = outcome(lambda: [val(tv, x) for x in timing.get_timestamps(i, n)])
        got = ("ok " + render(o[1])) if o[0] == "ok" else "err " + o[1]
        if i < 0 or n < 0:
            want = "err ValueError"
        else:
            want = exp_regular(fam, ts, off, si, i, n)
        if got != want:
            ctx.violation(what="regular get_timestamps", fam=fam, timestamp=ts, offset=off, interval=si, i=i, n=n,
                          observed=got[:300], required=want[:300] + " (timestamp + offset + (i+k)*interval, exactly)")
        st = outcome(lambda: val(tv, timing.start_time))
        alo, ahi, _, _ = FAMR[fam]
        sv = ts if off is None else ts + off
        wst = f"ok {sv}" if alo <= sv < ahi else "err OverflowError"
        gst = f"ok {st[1]}" if st[0] == "ok" else "err " + st[1]
        if gst != wst:
            ctx.violation(what="start_time", fam=fam, timestamp=ts, offset=off, observed=gst, required=wst)
        f = lambda x: "-" if x is None else str(x)
        reqs.append((f"timing get {fam} REGULAR {ts} {f(off)} {si} [] {i} {n}", got))
        reqs.append((f"timing start {fam} {ts} {f(off)}", gst))
        ctx.case(("reg", fam, ts, off, si, i, n))
        ctx.count("outcome", got.split()[0] if got.startswith("ok") else got.split()[1])
        ctx.count("family", fam)
    # long windows: the k-th timestamp must be start + (i + k)*interval for every k, also thousands of samples in
    # (whatever the generator does internally: chunking, re-anchoring, vectorising); closed form only, no model lines
    for case in range(6 if ctx.quick else 40):
        fam = ("dt", "ht", "bt")[case % 3]
        si = rng.choice([1, 3, 333333, 10**6 + 1, -7, -(10**6)] + ([(1 << 64) // 3 + 1] if fam != 'dt' else []))
        i = rng.choice([1, 2, 3, 17, 4095, 4096, 4097, 10**6 + 1, rng.randint(1, 10**5)])
        n = rng.choice([4097, 4100, 5000, 8193, 8200, 12289, 16385 + rng.randint(0, 40)] + ([65537, 70001] if not ctx.quick else []))
        alo, ahi, _, _ = FAMR[fam]
        ts = (alo + ahi) // 2 if fam != "bt" else rng.choice([0, 10**30, -(10**30)])
        off = rng.choice([None, 5, -5])
        try:
            timing = Timing.create_with_regular_interval(tv.from_model(R[fam], si), tv.from_model(A[fam], ts),
                                                         None if off is None else tv.from_model(R[fam], off))
        except OverflowError:
            continue
        o = outcome(lambda: [val(tv, x) for x in timing.get_timestamps(i, n)])
        got = ("ok " + render(o[1])) if o[0] == "ok" else "err " + o[1]
        want = exp_regular(fam, ts, off, si, i, n)
        if got != want:
            wl = [ts + (off or 0) + (i + k) * si for k in range(n)]
            bad = next((k for k, (a, b) in enumerate(zip(o[1], wl)) if a != b), None) if o[0] == "ok" else None
            ctx.violation(what="regular get_timestamps (long window)", fam=fam, timestamp=ts, offset=off, interval=si, i=i, n=n,
                          first_wrong_index=bad, observed=(got[:200] if bad is None else o[1][bad]),
                          required=(want[:200] + " (timestamp + offset + (i+k)*interval, exactly)" if bad is None else wl[bad]))
        ctx.count("long_outcome", got.split()[0] if got.startswith("ok") else got.split()[1])
        ctx.case(("long", fam, ts, off, si, i, n))
        ctx.count("window", "long(>4096)")
    # a Timing converted to another family (to_bintime / to_hightime / to_datetime) is a Timing like any other: its start_time is
    # its own timestamp + time_offset and its timestamps are start_time + k*interval in the new family — whether or not anything
    # was read from the source before the conversion (caches must not travel across a change of resolution)
    for case in range(60 if ctx.quick else 2000):
        fam = rng.choice(["dt", "ht", "bt"])
        alo, ahi, _, _ = FAMR[fam]
        mid = (alo + ahi) // 2 if fam != "bt" else 3 * 10**9 * (1 << 64)
        ts = mid + rng.randint(-10**6, 10**6) * {"dt": 1, "ht": 10**9 + 7, "bt": 12345677}[fam]
        off = rng.randint(-10**4, 10**4) * {"dt": 1, "ht": 333333333333 + 1, "bt": 987654321 + 2}[fam] + rng.randint(0, 999)
        si = rng.randint(1, 10**4) * {"dt": 1, "ht": 777777777777 + 5, "bt": 55555555555 + 1}[fam]
        def mkt():
            return Timing.create_with_regular_interval(tv.from_model(R[fam], si), tv.from_model(A[fam], ts), tv.from_model(R[fam], off))
        read, fresh = mkt(), mkt()
        _ = read.start_time; _ = list(read.get_timestamps(1, 2))
        for conv in ("to_bintime", "to_hightime", "to_datetime"):
            outs = []
            for src in (read, fresh):
                c = getattr(src, conv)()
                o = outcome(lambda: (val(tv, c.timestamp), val(tv, c.time_offset), val(tv, c.sample_interval), val(tv, c.start_time),
                                     [val(tv, x) for x in c.get_timestamps(2, 3)], type(c.timestamp).__module__.split(".")[0]))
                outs.append(o)
                if o[0] == "ok":
                    t0, o0, s0, st0, stamps, _m = o[1]
                    if st0 != t0 + o0 or stamps != [t0 + o0 + (2 + k) * s0 for k in range(3)]:
                        ctx.violation(what="converted Timing: start_time / timestamps are not timestamp + offset + k*interval of its own members",
                                      fam=fam, conversion=conv, read_before_conversion=src is read, timestamp=ts, offset=off, interval=si,
                                      observed=f"start_time {st0}, timestamps {stamps}", required=f"start_time {t0 + o0}, timestamps {[t0 + o0 + (2 + k) * s0 for k in range(3)]}")
            if outs[0] != outs[1]:
                ctx.violation(what="reading a Timing changed what its conversion returns", fam=fam, conversion=conv, timestamp=ts, offset=off, interval=si,
                              observed=show(outs[0])[:200], required=show(outs[1])[:200])
            ctx.case(("converted", fam, conv, ts, off, si))
            ctx.count("converted", f"{fam}->{conv}")
    # timestamps carrying a time zone whose UTC offset changes (daylight saving): Timing does datetime arithmetic, i.e. the k-th
    # timestamp is start_time + (i+k)*interval as `datetime + timedelta` computes it (wall clock, same tzinfo) - the same for every
    # window that contains it
    import datetime as _dt

    class DstZone(_dt.tzinfo):
        """+01:00, +02:00 between 2025-03-30 02:00 and 2025-10-26 03:00 wall time"""
        def _dst(self, d):
            n = d.replace(tzinfo=None)
            return _dt.datetime(2025, 3, 30, 2) <= n < _dt.datetime(2025, 10, 26, 3)
        def utcoffset(self, d): return _dt.timedelta(hours=2 if self._dst(d) else 1)
        def dst(self, d): return _dt.timedelta(hours=1 if self._dst(d) else 0)
        def tzname(self, d): return "DST" if self._dst(d) else "STD"
    zone = DstZone()
    for start, step in ((_dt.datetime(2025, 3, 29, 20, 0, tzinfo=zone), _dt.timedelta(hours=1)), (_dt.datetime(2025, 10, 25, 22, 30, tzinfo=zone), _dt.timedelta(minutes=45)),
                        (_dt.datetime(2025, 3, 30, 1, 59, 59, tzinfo=zone), _dt.timedelta(seconds=1)), (_dt.datetime(2025, 10, 26, 6, 0, tzinfo=zone), -_dt.timedelta(hours=1))):
        for off in (None, _dt.timedelta(minutes=5)):
            timing = Timing.create_with_regular_interval(step, start, off)
            st = start if off is None else start + off
            want_all = [st + k * step for k in range(14)]
            for (i, n) in ((0, 14), (6, 7), (11, 2), (3, 1), (0, 1), (13, 1)):
                o = outcome(lambda: list(timing.get_timestamps(i, n)))
                ctx.case(("dst", str(start), str(step), off is None, i, n))
                if o[0] != "ok" or o[1] != want_all[i:i + n] or any(x.tzinfo is not zone for x in o[1]):
                    ctx.violation(what="regular get_timestamps across a change of the UTC offset", start=str(start), interval=str(step), offset=str(off), i=i, n=n,
                                  observed=(show(o)[:160] if o[0] != "ok" else str([str(x) for x in o[1]])[:300]), required=str([str(x) for x in want_all[i:i + n]])[:300])
    # irregular sequences whose neighbours are the SAME instant written in different zones, one of them a wall time in a repeated or skipped
    # hour (PEP 495: such a pair is neither `<` nor `>` - and not `==` either): accepted exactly when the sequence is non-decreasing or
    # non-increasing under `<=` / `>=`, and then served unchanged
    import itertools as _it2
    try:
        import zoneinfo as _zi
        berlin, newyork = _zi.ZoneInfo("Europe/Berlin"), _zi.ZoneInfo("America/New_York")
    except Exception:                                       # noqa: BLE001 - no tz database: the hand-written zone below still gives repeated hours
        berlin = newyork = None
    utc_ = _dt.timezone.utc
    pool = [_dt.datetime(2024, 10, 27, 0, 30, tzinfo=utc_), _dt.datetime(2024, 10, 27, 1, 30, tzinfo=utc_), _dt.datetime(2024, 10, 27, 5, 0, tzinfo=utc_),
            _dt.datetime(2024, 10, 26, 23, 0, tzinfo=utc_), _dt.datetime(2024, 10, 27, 2, 30, tzinfo=_dt.timezone(_dt.timedelta(hours=2)))]
    if berlin is not None:
        pool += [_dt.datetime(2024, 10, 27, 2, 30, tzinfo=berlin), _dt.datetime(2024, 10, 27, 2, 30, tzinfo=berlin, fold=1), _dt.datetime(2024, 3, 31, 2, 30, tzinfo=berlin),
                 _dt.datetime(2024, 11, 3, 1, 30, tzinfo=newyork, fold=1), _dt.datetime(2024, 10, 27, 1, 0, tzinfo=berlin)]
    pool += [_dt.datetime(2025, 10, 26, 2, 30, tzinfo=zone), _dt.datetime(2025, 10, 26, 2, 30, tzinfo=zone, fold=1), _dt.datetime(2025, 10, 26, 0, 30, tzinfo=utc_)]
    for k_ in (2, 3):
        for seq in _it2.product(range(len(pool)), repeat=k_):
            if k_ == 3 and (seq[0] * 5 + seq[1] * 3 + seq[2]) % (4 if ctx.quick else 1):
                continue
            stamps = [pool[i] for i in seq]
            mono = all(a <= b for a, b in zip(stamps, stamps[1:])) or all(a >= b for a, b in zip(stamps, stamps[1:]))
            o = outcome(lambda: Timing.create_with_irregular_interval(stamps))
            ctx.case(("irregular-interzone", seq))
            if mono:
                good = o[0] == "ok" and [(x, x.tzinfo, x.fold) for x in o[1].get_timestamps(0, k_)] == [(x, x.tzinfo, x.fold) for x in stamps]
            else:
                good = o[0] == "err" and o[1] == "ValueError"
            if not good:
                ctx.violation(what="irregular timing from datetimes of several zones (same instants, repeated / skipped hours)", timestamps=str([f"{x.isoformat()} fold={x.fold}" for x in stamps])[:300],
                              non_decreasing_or_non_increasing=mono, observed=show(o)[:160], required="accepted and served unchanged" if mono else "ValueError")
                break
        else:
            continue
        break
    # the same instant written in several zones (equal and of equal hash as datetimes), each in its own Timing, queried one after the
    # other in this one process: every Timing answers from ITS OWN timestamp - the zone it shows, and for a zone with a varying offset
    # the instants themselves, are those of its own datetime arithmetic
    import hightime as _ht
    inst = _dt.datetime(2025, 3, 29, 23, 0, tzinfo=_dt.timezone.utc)
    zones = [("UTC", _dt.timezone.utc), ("+05:30", _dt.timezone(_dt.timedelta(hours=5, minutes=30))), ("varying", zone), ("Zulu", _dt.timezone(_dt.timedelta(0), "Zulu")),
             ("-08:00", _dt.timezone(_dt.timedelta(hours=-8)))]
    for mk_name, mk_ts, mk_td in (("datetime", lambda d: d, lambda **k: _dt.timedelta(**k)),
                                  ("hightime", lambda d: _ht.datetime(d.year, d.month, d.day, d.hour, d.minute, d.second, tzinfo=d.tzinfo), lambda **k: _ht.timedelta(**k))):
        for order in (zones, list(reversed(zones)), zones[2:] + zones[:2]):
            for off in (mk_td(days=1), mk_td(hours=3), None):
                for zname, z in order:
                    ts = mk_ts(inst.astimezone(z))
                    timing = Timing.create_with_regular_interval(mk_td(hours=2), ts, off)
                    st = ts if off is None else ts + off
                    want = [st + k * mk_td(hours=2) for k in range(4)]
                    o1, o2 = outcome(lambda: timing.start_time), outcome(lambda: list(timing.get_timestamps(0, 4)))
                    ctx.case(("same-instant-zones", mk_name, zname, str(off)))

                    def same(a_, b_):
                        return a_ == b_ and a_.tzinfo is b_.tzinfo and a_.utcoffset() == b_.utcoffset() and (a_.hour, a_.minute) == (b_.hour, b_.minute)
                    if o1[0] != "ok" or not same(o1[1], st) or o2[0] != "ok" or len(o2[1]) != 4 or not all(same(x, y) for x, y in zip(o2[1], want)):
                        ctx.violation(what="a Timing's start time / timestamps are not those of its own timestamp (equal instants in different zones queried one after the other)",
                                      family=mk_name, zone=zname, offset=str(off), order=[n_ for n_, _ in order],
                                      observed=(show(o1)[:80] if o1[0] != "ok" else f"start_time {o1[1]} ({o1[1].tzinfo}); " + (show(o2)[:80] if o2[0] != "ok" else str([str(x) for x in o2[1]]))[:200]),
                                      required=f"start_time {st} ({st.tzinfo}); {[str(x) for x in want]}"[:300])
    # REGULAR / NONE without timestamp information
    for fam in ("dt", "ht", "bt"):
        for mode in ("NONE", "REGULAR"):
            for has_ts in (False, True):
                if mode == "REGULAR" and has_ts:
                    continue
                tsv = tv.from_model(A[fam], 10**15) if has_ts else None
                t = (Timing.create_with_no_interval(tsv) if mode == "NONE"
                     else Timing.create_with_regular_interval(tv.from_model(R[fam], 5), tsv))
                for i, n in ((0, 0), (0, 3), (2, 1), (-1, 1), (1, -1)):
                    o = outcome(lambda: list(t.get_timestamps(i, n)))
                    want = ("ValueError", "ValueError") if (i < 0 or n < 0) else ("RuntimeError", "NoTimestampInformationError")
                    if o[0] != "err" or (o[1], o[2]) != want:
                        ctx.violation(what="no timestamp information", mode=mode, i=i, n=n, observed=show(o), required=want[1])
                    reqs.append((f"timing get {fam} {mode} {'1000000000000000' if has_ts else '-'} - {'5' if mode == 'REGULAR' else '-'} [] {i} {n}",
                                 "err " + (o[1] if o[0] == "err" else "?")))
                    ctx.case(("noinfo", fam, mode, has_ts, i, n))
    # IRREGULAR windows
    for _ in range(300 if ctx.quick else 10000):
        fam = rng.choice(["dt", "ht", "bt"])
        m = rng.randint(0, 7)
        base = gen_abs(rng, tv, "dt" if fam == "dt" else fam)
        alo, ahi, _, _ = FAMR[fam]
        step = rng.choice([0, 1, 5, 10**6, -1, -10**6])
        stamps = [base + k * step for k in range(m)]
        stamps = [s for s in stamps if alo <= s < ahi]
        oc = outcome(Timing.create_with_irregular_interval, [tv.from_model(A[fam], s) for s in stamps])
        if oc[0] != "ok":
            ctx.violation(what="create_with_irregular_interval", fam=fam, seq=stamps, observed=show(oc), required="accepted (monotonic)")
            continue
        timing = oc[1]
        i = rng.choice([0, 1, 2, 3, len(stamps), len(stamps) + 1, -1, rng.randint(0, 8)])
        n = rng.choice([0, 1, 2, 3, len(stamps), len(stamps) + 1, -1, max(0, len(stamps) - i), max(0, len(stamps) - i) + 1])
        o = outcome(lambda: [val(tv, x) for x in timing.get_timestamps(i, n)])
        got = ("ok " + render(o[1])) if o[0] == "ok" else "err " + o[1]
        want = "err ValueError" if (i < 0 or n < 0 or i + n > len(stamps)) else "ok " + render(stamps[i:i + n])
        if got != want:
            ctx.violation(what="irregular get_timestamps", stamps=stamps, i=i, n=n, observed=got, required=want)
        reqs.append((f"timing get {fam} IRREGULAR - - - {render(stamps)} {i} {n}", got))
        ctx.case(("irr", tuple(stamps), i, n))
        ctx.count("irregular_window", "beyond" if i + n > len(stamps) else "fits")
    # the timestamps in every kind of Sequence the API accepts (list, tuple, the library's own DateTimeArray, a user Sequence class), with
    # sub-second spacings of every size: several timestamps inside one whole second, fractions more than half a second apart, equal ones
    import nitypes.bintime as _bt
    from collections.abc import Sequence as _Seq

    class _MySeq(_Seq):
        def __init__(self, xs): self._xs = list(xs)
        def __getitem__(self, i): return self._xs[i]
        def __len__(self): return len(self._xs)
    T64_ = 1 << 64
    fracsets = [[1 / 8, 3 / 4, 7 / 8], [1 / 8, 3 / 4, 11 / 16], [-1.5, -0.75, -0.125, 0.5], [0.9, 0.2], [0.2, 0.9], [0.1, 0.1, 0.7], [0.7, 0.1, 0.1], [0.05, 0.55, 0.56, 1.04], [2.9, 2.3, 2.25, 1.7],
                [0.0, 0.5, 1.0], [0.49, 0.99, 1.49], [0.99, 0.49], [0.3, 0.8, 0.3]]
    for fr in fracsets:
        ticks_ = [3_831_211_530 * T64_ + int(f * T64_) for f in fr]
        inc = all(x <= y for x, y in zip(ticks_, ticks_[1:])); dec = all(x >= y for x, y in zip(ticks_, ticks_[1:]))
        stamps_ = [_bt.DateTime.from_ticks(t) for t in ticks_]
        for cname, cont in (("list", list(stamps_)), ("tuple", tuple(stamps_)), ("DateTimeArray", _bt.DateTimeArray(stamps_)), ("Sequence subclass", _MySeq(stamps_))):
            o = outcome(Timing.create_with_irregular_interval, cont)
            ctx.case(("irregular-container", cname, str(fr)))
            ctx.count("irregular container", cname)
            if (inc or dec) != (o[0] == "ok") or (o[0] == "err" and o[1] != "ValueError"):
                ctx.violation(what="irregular timestamps in a Sequence: accepted iff monotonic", container=cname, fractions_of_a_second=str(fr), observed=show(o)[:120],
                              required="accepted" if (inc or dec) else "ValueError")
            elif o[0] == "ok":
                g = outcome(lambda: [x.ticks for x in o[1].get_timestamps(0, len(ticks_))])
                if g != ("ok", ticks_):
                    ctx.violation(what="irregular timestamps in a Sequence: returned as given", container=cname, observed=show(g)[:160], required=str(ticks_)[:160])
    # monotonicity scan and irregular construction
    seqs = [[], [1], [1, 1], [1, 2, 3], [3, 2, 1], [1, 1, 2, 2], [2, 2, 1, 1], [1, 2, 1], [2, 1, 2], [1, 1, 2, 1],
            [5, 5, 5, 5, 4, 5], [1, 2, 3, 4, 5, 4], [5, 4, 3, 2, 1, 2], [0, 0, 0]]
    for _ in range(300 if ctx.quick else 8000):
        m = rng.randint(0, 8)
        c = rng.random()
        if c < 0.35:
            s = sorted(rng.randint(0, 6) for _ in range(m))
        elif c < 0.6:
            s = sorted((rng.randint(0, 6) for _ in range(m)), reverse=True)
        else:
            s = [rng.randint(0, 4) for _ in range(m)]
        if rng.random() < 0.2 and s:
            s.append(s[-1] + rng.choice([-1, 1]))
        seqs.append(s)
    # bintime instants are 128-bit tick counts: most of them lie outside the years 1..9999 of datetime/hightime, and
    # Timing must order, store and return those like any other (bases "btlo"/"bthi" sit next to the INT128 limits)
    far = {"btlo": lambda x: I128_MIN + 10**6 + 7 + x * 1000, "bthi": lambda x: I128_MAX - 10**6 + x * 1000,
           "btfar": lambda x: (1 << 100) + x * (1 << 64)}
    for s in seqs:
        for fam in ("dt", "bt", "ht", "btlo", "bthi", "btfar"):
            f = far.get(fam, lambda x: 10**15 + x * 1000)
            objs = [tv.from_model(A[fam[:2]], f(x)) for x in s]
            om = outcome(_are_timestamps_monotonic, objs)
            mono = om[1] if om[0] == "ok" else None
            want = all(a <= b for a, b in zip(s, s[1:])) or all(a >= b for a, b in zip(s, s[1:]))
            if mono is not want:
                ctx.violation(what="_are_timestamps_monotonic", seq=s, fam=fam, ticks=[f(x) for x in s][:6],
                              observed=show(om), required=want)
            o = outcome(Timing.create_with_irregular_interval, objs)
            if want and o[0] != "ok" or (not want and o[:2] != ("err", "ValueError")):
                ctx.violation(what="create_with_irregular_interval", seq=s, fam=fam, ticks=[f(x) for x in s][:6],
                              observed=show(o), required="accepted" if want else "ValueError")
            # every way of handing the sequence over is validated alike: list / tuple, copied or taken over (copy_timestamps=False)
            for how, mkargs in (("list,copy=False", lambda: dict(timestamps=list(objs), copy_timestamps=False)), ("tuple,copy=False", lambda: dict(timestamps=tuple(objs), copy_timestamps=False)),
                                ("list,copy=True", lambda: dict(timestamps=list(objs), copy_timestamps=True))):
                o2 = outcome(lambda: Timing(SampleIntervalMode.IRREGULAR, **mkargs()))
                if (o2[0] == "ok") != (o[0] == "ok") or (o2[0] == "err" and o2[1] != o[1]):
                    ctx.violation(what="Timing(IRREGULAR, timestamps=…) verdict depends on how the sequence is handed over", how=how, seq=s, fam=fam,
                                  observed=show(o2)[:120], required=show(o)[:120] + " (create_with_irregular_interval)")
            if want and o[0] == "ok" and fam.startswith("bt") and s:
                i = len(s) // 3
                og = outcome(lambda: [val(tv, x) for x in o[1].get_timestamps(i, len(s) - i)])
                if og != ("ok", [f(x) for x in s[i:]]):
                    ctx.violation(what="irregular get_timestamps (bintime, whole tick range)", seq=s, fam=fam, i=i,
                                  observed=show(og)[:300], required=[f(x) for x in s[i:]][:6])
            ctx.count("mono_family", fam)
        mono = want
        reqs.append((f"timing mono {render(s)}", "True" if want else "False"))
        # translation validation of the generated scan (Gen/Irregular.lean) on the same sequences
        reqs.append(("gen Irregular._are_timestamps_monotonic " + " ".join(str(v) for v in s), "True" if mono else "False"))
        ctx.case(("mono", tuple(s)))
    for bad in ([1, 2], ["a"], [None], 5, None, iter([])):
        o = outcome(Timing.create_with_irregular_interval, bad)
        if o[:2] != ("err", "TypeError"):
            ctx.violation(what="create_with_irregular_interval", seq=repr(bad), observed=show(o), required="TypeError")
        if isinstance(bad, list):
            for cp in (False, True):
                o2 = outcome(lambda: Timing(SampleIntervalMode.IRREGULAR, timestamps=list(bad), copy_timestamps=cp))
                if o2[:2] != ("err", "TypeError"):
                    ctx.violation(what="Timing(IRREGULAR, timestamps=…)", seq=repr(bad), copy_timestamps=cp, observed=show(o2), required="TypeError")
    res = ctx.model([q for q, _ in reqs])
    if res is not None:
        for (q, want), got in zip(reqs, res):
            if norm_model(got) != want:
                ctx.mismatch(stream="timing " + q.split()[1], request=q, model_says=got, code_says=want)
    ctx.extra["model_comparisons"] = len(reqs)
    for q, w in reqs[:: max(1, len(reqs) // 8)][:8]:
        ctx.sample({"request": q[:300], "response": w[:300]})


def replay(doc):
    print(doc.get("input"))
    return 0
