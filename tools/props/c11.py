"""C11 — Scaled data is gain*raw+offset, element by element, in the requested dtype."""
from __future__ import annotations

import math
from decimal import Decimal
from fractions import Fraction

import numpy as np

from props.common import outcome, show

PID = "C11"
LEAN_MODULE = "NiVerif.Props.C11"
NAMESPACE = "Props.C11"
DRIVER = "drivers/C11.lean"
GEN_MODULES = ["Scaling", "ComplexDtypes", "ScaledData"]
EXTRA_LEAN_MODULES = ["NiVerif.Model.Scaling", "NiVerif.Model.Complex"]
THEOREMS = ["stored_is_pyfloat", "stored_error_iff", "dtype_honoured", "promote_table", "getScaled_dtype", "default_dtype",
            "unsupported_dtype_TypeError", "window_ok_iff", "window_error_ValueError", "analog_window", "no_scaling_is_cast",
            "linear_value", "roundNat_error", "roundDy_error", "linear_error", "scaled_data_eq",
            "gen_scaled_dtype_tables", "gen_get_scaled_eq_model", "gen_scaled_data_eq_model"]
RULE = ("every raw dtype (float32/64, (u)int8..64, complex64/128, ComplexInt32) x requested scaled dtype (default, both "
        "supported ones, unsupported ones) x scale mode (NO_SCALING; LinearScaleMode with gain/offset given as Python float, "
        "int, numpy.float16/32/64/longdouble, float subclass, Decimal, Fraction, NumPy integer; zero, negative, huge, tiny) x "
        "sample values incl. the type limits x windows (valid and out of range): returned dtype and length, NO_SCALING "
        "against the exactly rounded conversion, linear scaling against the exact rational gain*conv(raw)+offset with a "
        "4-ulp bound, raw bytes before/after, scaled_data == get_scaled_data(), error classes; the cases whose intermediate "
        "values stay in the normal range are replayed through Model/Scaling.lean and compared bit for bit")
TRUSTED = ["Gen/Scaling.lean (regenerated from waveform/_scaling/_linear.py and _none.py on every run: what __init__ stores, the "
           "_transform_data expression) + hand model NiVerif/Model/Scaling.lean (NEP 50 promotion table, astype / convert_complex, "
           "IEEE round-to-nearest-even per operation) compared with NumPy case by case",
           "Py/Float.lean: arg_to_float and float() on argument kinds (hand prelude, compared through the 'stored' lines)"]
ASSUMPTIONS = ["'within a few ulps' is read as 4 ulps of the requested dtype at the largest magnitude among |gain*x|, |offset| "
               "and |result| (two correctly rounded operations plus the rounding of gain and offset to the array's dtype)",
               "overflow to infinity and subnormal results are compared with the exact value only through that bound's "
               "finite cases; NaN/inf samples are not generated"]


class F(float):
    pass


def rne(fr: Fraction, p: int) -> Fraction:
    """round a rational to p significant bits, half to even (no exponent range) — the reference, in exact arithmetic"""
    if fr == 0:
        return Fraction(0)
    s = -1 if fr < 0 else 1
    a = abs(fr)
    e = a.numerator.bit_length() - a.denominator.bit_length()
    while Fraction(2) ** e > a:
        e -= 1
    while Fraction(2) ** (e + 1) <= a:
        e += 1
    q = a / Fraction(2) ** (e - p + 1)      # in [2^(p-1), 2^p)
    n = q.numerator // q.denominator
    rem = q - n
    if rem > Fraction(1, 2) or (rem == Fraction(1, 2) and n % 2 == 1):
        n += 1
    return s * n * Fraction(2) ** (e - p + 1)


def ulp(mag: Fraction, p: int) -> Fraction:
    if mag == 0:
        return Fraction(0)
    e = mag.numerator.bit_length() - mag.denominator.bit_length()
    while Fraction(2) ** e > mag:
        e -= 1
    while Fraction(2) ** (e + 1) <= mag:
        e += 1
    return Fraction(2) ** (e - p + 1)


def dy(x) -> str:
    n, d = Fraction(x).numerator, Fraction(x).denominator
    return f"{n}/{d.bit_length() - 1}"


KIND = {float: "pyfloat", int: "pyint", bool: "pyint", np.float64: "floatSubclass", F: "floatSubclass", np.float32: "npfloat32",
        np.float16: "npfloat16", np.longdouble: "nplongdouble", Decimal: "hasFloat", Fraction: "hasFloat", np.int32: "hasFloat",
        type(None): "noFloat", str: "noFloat"}


def elems_text(arr, ci):
    if arr.size == 0:
        return "_"
    out = []
    for e in arr.tolist():
        if isinstance(e, tuple):
            out.append(f"{e[0]}/0:{e[1]}/0")
        elif isinstance(e, complex):
            out.append(f"{dy(e.real)}:{dy(e.imag)}")
        else:
            out.append(f"{dy(e)}:0/0")
    return ",".join(out)


def run(ctx):
    ctx.extra["gain_range_cases"] = gain_range_cases(ctx, lambda info: ctx.violation(
        what="scaled sample is not gain*raw+offset within 4 ulps (gain / offset outside the requested dtype's own range)", site=KNOWN_SITE, when=KNOWN_WHEN, **info))
    import warnings
    from nitypes.waveform import AnalogWaveform, ComplexWaveform, LinearScaleMode, NO_SCALING
    from nitypes.complex import ComplexInt32DType
    rng = ctx.rng
    lines, expect = [], []
    A_RAW = [np.float32, np.float64, np.int8, np.int16, np.int32, np.int64, np.uint8, np.uint16, np.uint32, np.uint64]
    C_RAW = [np.complex64, np.complex128, ComplexInt32DType]
    GAINS = [1.0, 2.0, 0.5, -3.25, 0.1, 1e-3, 1 / 3, 1024.0, 0.0, -1.0, 7, 3, np.float32(0.1), np.float64(0.1), np.float16(0.5),
             np.longdouble(2), F(1.5), Decimal("2.5"), Fraction(1, 3), np.int32(4)]
    WILD = [1e300, -1e300, 1e-300, 5e-324, 1e38, 1e-40, float(2 ** 100)]

    def sample_values(dt, n):
        dt = np.dtype(dt)
        if dt == ComplexInt32DType:
            a = np.zeros(n, dt)
            a["real"] = [rng.choice([-32768, 32767, 0, 1, -1, rng.randint(-32768, 32767)]) for _ in range(n)]
            a["imag"] = [rng.choice([-32768, 32767, 0, 1, -1, rng.randint(-32768, 32767)]) for _ in range(n)]
            return a
        if dt.kind in "iu":
            info = np.iinfo(dt)
            pool = [info.min, info.max, 0, 1, info.max - 1, info.min + 1]
            if dt.itemsize == 8:
                # just above a binary32 tie: rounding through binary64 first would give another result
                pool += [(1 << 60) + (1 << 36) + 1, (1 << 62) + (1 << 38) + 1, (1 << 55) + (1 << 31) + 1, (3 << 59) + (1 << 36) + 1]
                pool += [-v for v in pool[-4:]] if info.min < 0 else [(1 << 63) + (1 << 39) + 1]
            if dt.itemsize == 4:
                pool += [(1 << 30) + (1 << 6) + 1, (1 << 25) + 3, 16777217]
            pool = [v for v in pool if info.min <= v <= info.max]
            return np.array([rng.choice(pool + [rng.randint(info.min, info.max), rng.randint(max(info.min, -100), min(info.max, 100))])
                             for _ in range(n)], dt)
        pool = [0.0, 1.0, -1.0, 0.1, -2.5, 1e-3, 123456.789, 16777217.0, 1 / 3, -7.0, 2.0 ** 20 + 0.5]
        if dt.kind == "c":
            return np.array([complex(rng.choice(pool) * rng.choice([1, 1, 3.7]), rng.choice(pool)) for _ in range(n)], dt)
        return np.array([rng.choice(pool) * rng.choice([1, 1, 3.7, rng.random()]) for _ in range(n)], dt)

    def exact_parts(arr):
        """exact (Fraction) real and imaginary parts of every raw sample"""
        if arr.dtype == ComplexInt32DType:
            return [(Fraction(int(r)), Fraction(int(i))) for r, i in zip(arr["real"].tolist(), arr["imag"].tolist())]
        if arr.dtype.kind == "c":
            return [(Fraction(float(z.real)), Fraction(float(z.imag))) for z in arr.tolist()]
        return [(Fraction(v), Fraction(0)) for v in arr.tolist()]

    n_cases = 400 if ctx.quick else 12000
    with warnings.catch_warnings():
        warnings.simplefilter("ignore")
        # argument kinds LinearScaleMode accepts / refuses
        for g in GAINS + [None, "1.0"]:
            for o in (0.5, np.float64(1.0), None):
                r = outcome(LinearScaleMode, g, o)
                bad = KIND[type(g)] == "noFloat" or KIND[type(o)] == "noFloat"
                ctx.case(("scale-mode-args", type(g).__name__, type(o).__name__))
                if bad != (r[0] == "err") or (r[0] == "err" and r[1] != "TypeError"):
                    ctx.violation(what="LinearScaleMode argument acceptance", gain=repr(g), offset=repr(o), observed=show(r)[:200],
                                  required="TypeError" if bad else "accepted")
                lines.append(f"stored {KIND[type(g)]} {KIND[type(o)]}")
                expect.append("err TypeError" if r[0] == "err" else "ok Py.Kind.pyfloat Py.Kind.pyfloat")
        for it in range(n_cases):
            complex_w = rng.random() < 0.4
            raw_dt = np.dtype(rng.choice(C_RAW if complex_w else A_RAW))
            n = rng.randint(0, 6)
            raw = sample_values(raw_dt, n)
            wild = rng.random() < 0.15
            if rng.random() < 0.2:
                mode, g, o = NO_SCALING, None, None
            else:
                g = rng.choice(GAINS + (WILD if wild else []))
                o = rng.choice(GAINS + (WILD if wild else []))
                if rng.random() < 0.2:
                    g = rng.choice([1.0, 1, np.float32(1.0), np.float64(1.0)])     # the identity gain, offset only
                if rng.random() < 0.15:
                    o = rng.choice([0.0, 0, -0.0])                                  # gain only
                if rng.random() < 0.3 and isinstance(g, float) and type(g) is float and g != 1.0:
                    g = g * rng.uniform(-4, 4)
                mode = LinearScaleMode(g, o)
            cls = ComplexWaveform if complex_w else AnalogWaveform
            if rng.random() < 0.4:
                # the samples sit inside a larger buffer: non-zero internal start index, slack behind the window
                k0, k1 = rng.randint(1, 4), rng.randint(0, 3)
                buf = np.concatenate([sample_values(raw_dt, k0), raw, sample_values(raw_dt, k1)]).astype(raw_dt)
                w = cls.from_array_1d(buf, raw_dt, copy=rng.random() < 0.5, start_index=k0, sample_count=n, scale_mode=mode)
            elif rng.random() < 0.3 and n:
                # the samples are a strided / reversed view of the caller's memory (copy=False keeps that layout)
                if rng.random() < 0.5:
                    wide = np.zeros(2 * n + 1, raw_dt)
                    wide[::2][:n] = raw
                    view = wide[::2][:n]
                else:
                    view = raw[::-1].copy()[::-1]
                w = cls.from_array_1d(view, raw_dt, copy=False, scale_mode=mode)
                ctx.count("buffer", "non-contiguous view")
            else:
                w = cls.from_array_1d(raw, raw_dt, scale_mode=mode)
            sup = [np.complex64, np.complex128] if complex_w else [np.float32, np.float64]
            c = rng.random()
            if c < 0.12:
                req = rng.choice([np.int32, np.float16, np.longdouble, np.bool_, "U3"] + ([np.float64, np.float32] if complex_w else [np.complex128, np.complex64]))
            elif c < 0.3:
                req = None
            else:
                req = rng.choice(sup)
            if rng.random() < 0.12:
                s = rng.choice([n + 1, n + 5, -1, 0]); cnt = rng.choice([n + 1, None, -2, n - s + 1 if 0 <= s <= n else 1])
            elif rng.random() < 0.5:
                s, cnt = 0, None
            else:
                s = rng.randint(0, n); cnt = rng.choice([None, rng.randint(0, n - s)])
            before = raw.tobytes(), w.raw_data.tobytes()
            kw = {}
            if not (s == 0 and rng.random() < 0.3):
                kw["start_index"] = s
            if cnt is not None or rng.random() < 0.5:
                kw["sample_count"] = cnt
            s_eff = kw.get("start_index", 0); c_eff = kw.get("sample_count", None)
            r = outcome(lambda: w.get_scaled_data(req, **kw))
            after = raw.tobytes(), w.raw_data.tobytes()
            ctx.case(("scaled", raw_dt.name if raw_dt != ComplexInt32DType else "ci32", str(req), "none" if g is None else (type(g).__name__, type(o).__name__)), nontrivial=True)
            ctx.count("outcome", r[0] if r[0] == "ok" else r[1])
            if before != after:
                ctx.violation(what="get_scaled_data modified the raw data", observed="raw bytes changed", required="raw data untouched")
                return
            req_ok = req is None or any(np.dtype(req) == np.dtype(x) for x in sup)
            win_ok = 0 <= s_eff <= n and (c_eff is None or (c_eff >= 0 and s_eff + c_eff <= n))
            want_dt = np.dtype(req) if req is not None else np.dtype(np.complex128 if complex_w else np.float64)
            mode_txt = "none" if g is None else f"{dy(float(g))};{dy(float(o))};{KIND[type(g)]};{KIND[type(o)]}"
            raw_name = "ComplexInt32DType" if raw_dt == ComplexInt32DType else raw_dt.name
            req_txt = "-" if req is None else (np.dtype(req).name)
            line = (f"scaled {'complex' if complex_w else 'analog'} {raw_name} {elems_text(raw, ComplexInt32DType)} {mode_txt} {req_txt} "
                    f"{'-' if 'start_index' not in kw else s_eff} {'-' if c_eff is None else c_eff}")
            if not req_ok:
                if not (r[0] == "err" and r[1] == "TypeError"):
                    ctx.violation(what="unsupported scaled dtype not refused with TypeError", dtype=str(req), observed=show(r)[:200], required="TypeError")
                    return
                lines.append(line); expect.append("err TypeError")
                continue
            if not win_ok:
                if not (r[0] == "err" and r[1] == "ValueError"):
                    ctx.violation(what="window outside the waveform not refused with ValueError", start_index=s_eff, sample_count=c_eff, samples=n,
                                  observed=show(r)[:200], required="ValueError")
                    return
                lines.append(line); expect.append("err ValueError")
                continue
            if r[0] != "ok":
                ctx.violation(what="get_scaled_data raised for a valid request", raw_dtype=raw_name, dtype=str(req), observed=show(r)[:200], required="scaled data")
                return
            out = r[1]
            count = c_eff if c_eff is not None else n - s_eff
            if out.dtype != want_dt or out.shape != (count,):
                ctx.violation(what="scaled data does not have the requested dtype / length", raw_dtype=raw_name, requested=str(req),
                              gain=repr(g), offset=repr(o), observed=f"{out.dtype} {out.shape}", required=f"{want_dt} ({count},)")
                return
            p = 24 if want_dt in (np.dtype(np.float32), np.dtype(np.complex64)) else 53
            ex = exact_parts(raw[s_eff:s_eff + count])
            outs = [(Fraction(float(z.real)), Fraction(float(z.imag))) if complex_w else (Fraction(float(z)), Fraction(0)) for z in out.tolist()] \
                if all(np.isfinite(out.real)) and all(np.isfinite(np.imag(out))) else None
            fmax = Fraction(float(np.finfo(np.float32 if p == 24 else np.float64).max))
            fmin = Fraction(float(np.finfo(np.float32 if p == 24 else np.float64).tiny))
            normal = True
            for k, (xr, xi) in enumerate(ex):
                # conversion to the requested dtype: truncation never happens here (float targets): exact rounding
                cr, ci_ = rne(xr, p), rne(xi, p)
                if g is None:
                    exp_r, exp_i, tol_r, tol_i = cr, ci_, Fraction(0), Fraction(0)
                else:
                    G, O = Fraction(float(g)), Fraction(float(o))
                    exp_r, exp_i = G * cr + O, G * ci_
                    if outs is None:
                        normal = False
                        continue
                    M = max(abs(G * cr), abs(O), abs(outs[k][0]))
                    tol_r = 4 * ulp(M, p)
                    tol_i = 4 * ulp(max(abs(G * ci_), abs(outs[k][1])), p)
                    for q in (abs(G * cr), abs(O), abs(exp_r), abs(G * ci_), abs(G), abs(cr), abs(ci_)):
                        if q != 0 and not (fmin * 2 ** 30 < q < fmax / 2 ** 30):
                            normal = False
                if abs(cr) > fmax or abs(ci_) > fmax or max(abs(exp_r), abs(exp_i)) > fmax / 4:
                    normal = False
                    continue        # overflow region: outside the bound's finite cases
                if outs is None:
                    continue
                if not normal and g is not None:
                    continue
                if abs(outs[k][0] - exp_r) > tol_r or abs(outs[k][1] - exp_i) > tol_i:
                    ctx.violation(what="scaled sample is not gain*raw+offset within 4 ulps" if g is not None else "NO_SCALING sample is not the converted raw sample",
                                  raw_dtype=raw_name, requested=str(want_dt), raw=str(raw[s_eff + k]), gain=repr(g), offset=repr(o),
                                  observed=str(out[k]), required=f"{float(exp_r)!r}{'' if not complex_w else f' + {float(exp_i)!r}j'} (tolerance {float(tol_r)!r})")
                    return
            ctx.evaluations += count
            # scaled_data
            if s_eff == 0 and c_eff is None:
                sd = w.scaled_data
                dflt = w.get_scaled_data()
                if sd.dtype != dflt.dtype or not np.array_equal(sd, dflt):
                    ctx.violation(what="scaled_data differs from get_scaled_data()", observed=str(sd), required=str(dflt))
                    return
            if normal and outs is not None:
                lines.append(line)
                expect.append(f"ok {want_dt.name} " + ("_" if count == 0 else ",".join(f"{dy(a)}:{dy(b)}" for a, b in outs)))
                ctx.count("model-compared", "bit-exact")
            else:
                ctx.count("model-compared", "skipped (outside the normal range)")
    # windows given as narrow NumPy integer scalars on waveforms longer than those types can count
    for cls, dtype in ((AnalogWaveform, np.int16), (ComplexWaveform, np.complex64)):
        for n_samples in (250, 300):
            raw = (np.arange(n_samples) % 100).astype(dtype)
            w = cls.from_array_1d(raw, dtype, scale_mode=LinearScaleMode(2.0, 1.0))
            full = w.get_scaled_data()
            for a, b in ((200, 100), (200, 50), (200, 200), (100, 120), (70, 70), (255, 1), (127, 100), (0, 250)):
                for T in (np.uint8, np.int8, np.int16, np.uint16, np.int64):
                    info = np.iinfo(T)
                    if not (info.min <= a <= info.max and info.min <= b <= info.max):
                        continue
                    r = outcome(lambda: w.get_scaled_data(start_index=T(a), sample_count=T(b)))
                    fits = a + b <= n_samples
                    ctx.case(("npint-window", cls.__name__, n_samples, a, b, T.__name__))
                    okk = (r[0] == "ok" and len(r[1]) == b and np.array_equal(r[1], full[a:a + b])) if fits else (r[0] == "err" and r[1] == "ValueError")
                    if not okk:
                        ctx.violation(what="window given as NumPy integer scalars", cls=cls.__name__, samples=n_samples, start_index=repr(T(a)), sample_count=repr(T(b)),
                                      observed=show(r)[:120] if r[0] != "ok" else f"{len(r[1])} samples", required=f"samples {a}..{a + b}" if fits else "ValueError")
                        break
    # ---- windows of more than a million samples at non-zero start indices (whatever the implementation does for large requests:
    # blocks, chunks): element k is gain*raw[start+k]+offset; gain and offset are exact in binary, so the expected values are exact
    with warnings.catch_warnings():
        warnings.simplefilter("ignore")
        for case in range(2 if ctx.quick else 8):
            total = rng.choice([(1 << 20) + 9, 1_300_000] if ctx.quick else [(1 << 20) + 9, 1_300_000, (1 << 21) + 77, 2_500_001])
            start = rng.choice([1, 5, 4097, rng.randint(1, 100)])
            complex_w = case % 2 == 1
            gen = np.random.default_rng(ctx.seed * 31 + case)
            if complex_w:
                raw = np.zeros(total, ComplexInt32DType)
                raw["real"] = gen.integers(-32768, 32768, total); raw["imag"] = gen.integers(-32768, 32768, total)
                w = ComplexWaveform.from_array_1d(raw, ComplexInt32DType, copy=False, scale_mode=LinearScaleMode(0.25, 1.5))
                req = np.complex64
                want = (raw["real"][start:].astype(np.float64) * 0.25 + 1.5) + 1j * (raw["imag"][start:].astype(np.float64) * 0.25)
            else:
                raw = gen.integers(-32768, 32768, total).astype(np.int16)
                w = AnalogWaveform.from_array_1d(raw, np.int16, copy=False, scale_mode=LinearScaleMode(0.25, 1.5))
                req = rng.choice([np.float32, np.float64])
                want = raw[start:].astype(np.float64) * 0.25 + 1.5
            r = outcome(lambda: w.get_scaled_data(req, start_index=start))
            ctx.case(("long-window", complex_w, total, start, str(np.dtype(req))))
            ctx.count("window", "long (> 2^20)")
            ok_ = r[0] == "ok" and r[1].dtype == np.dtype(req) and r[1].shape == want.shape and np.array_equal(r[1].astype(want.dtype), want)
            if not ok_:
                k = None
                if r[0] == "ok" and r[1].shape == want.shape:
                    k = int(np.argmax(r[1].astype(want.dtype) != want))
                ctx.violation(what="scaled data of a long window", cls=type(w).__name__, samples=total, start_index=start, requested=str(np.dtype(req)), first_wrong_element=k,
                              observed=(show(r)[:160] if k is None else str(r[1][k])), required=("gain*raw[start+k]+offset" if k is None else str(want[k])))
    res = ctx.model(lines)
    if res is not None:
        for q, want, got in zip(lines, expect, res):
            if got != want:
                ctx.mismatch(stream="scaling " + q.split()[0], request=q[:400], model_says=got[:300], code_says=want[:300])
                break
    # ---- the requested dtype spelled with the other byte order ('>f4', '>c16', ...): either refused (TypeError / ValueError) or the same
    # VALUES as the native request - never reinterpreted bytes -----------------------------------------------------------------------
    from nitypes.complex import ComplexInt32DType as _CI
    from nitypes.waveform import AnalogWaveform as _AW, ComplexWaveform as _CW, LinearScaleMode as _LSM, NO_SCALING as _NS
    swap = ">" if np.dtype(np.float64).byteorder in ("=", "<") and np.little_endian else "<"
    rawsets = [(_AW, np.int16, [1, -2, 300]), (_AW, np.float32, [1.5, -2.25, 3.0]), (_AW, np.float64, [1.5, -2.25, 3.0]), (_CW, np.complex64, [1 + 2j, -3.5j, 4]),
               (_CW, np.complex128, [1 + 2j, -3.5j, 4]), (_CW, _CI, [(1, 2), (-3, 4), (300, -5)])]
    for cls_, rdt, vals_ in rawsets:
        for mode_ in (_NS, _LSM(2.0, 0.5), _LSM(1.0, 0.0)):
            for native in ((np.float32, np.float64) if cls_ is _AW else (np.complex64, np.complex128)):
                for spelled in (np.dtype(native).newbyteorder(swap), np.dtype(native).newbyteorder(swap).str, np.dtype(native).newbyteorder("="), np.dtype(native).str):
                    w_ = cls_.from_array_1d(np.array(vals_, rdt), rdt, scale_mode=mode_)
                    ref = outcome(lambda: w_.get_scaled_data(native))
                    o = outcome(lambda: w_.get_scaled_data(spelled))
                    ctx.case(("byte-order-request", cls_.__name__, str(np.dtype(rdt)), type(mode_).__name__, str(spelled)))
                    if ref[0] != "ok":
                        ctx.violation(what="native scaled dtype refused", observed=show(ref)[:120], required="values")
                        continue
                    if o[0] == "ok":
                        if o[1].shape != ref[1].shape or not np.array_equal(o[1].astype(native), ref[1]):
                            ctx.violation(what="scaled data for a byte-swapped spelling of the requested dtype", cls=cls_.__name__, raw_dtype=str(np.dtype(rdt)), scale_mode=repr(mode_)[:60], requested=str(spelled),
                                          observed=str(o[1].astype(native).tolist())[:160], required=str(ref[1].tolist())[:160] + " (or a TypeError / ValueError)")
                    elif o[1] not in ("TypeError", "ValueError"):
                        ctx.violation(what="byte-swapped requested dtype: refusal class", requested=str(spelled), observed=show(o)[:120], required="TypeError / ValueError or the values")
    ctx.extra["model_lines_compared"] = len(lines)
    ctx.evaluations += len(lines)
    for q, e in list(zip(lines, expect))[:2000:200]:
        ctx.sample({"request": q[:160], "response": e[:160]})


# ---- a genuine defect recorded rather than repaired (DESIGN.md §4 / known_findings.json, id C11-F1) -----------------------------------
# LinearScaleMode._transform_data evaluates `data * gain + offset` with gain / offset as Python floats.  For a 32-bit request NumPy
# (NEP 50) first rounds the Python float to float32, so a gain or offset whose magnitude lies outside float32's own range becomes
# inf / 0 although gain*raw+offset is an ordinary float32.  The repair would be to compute 32-bit requests in float64 and round once,
# which changes the last bit of many float32 results (and the bit-exact model of C11): not a small, safe patch.
KNOWN_SITE = "LinearScaleMode._transform_data"
KNOWN_WHEN = "32-bit scaled dtype requested and |gain| or |offset| is not a finite non-zero float32, while gain*raw+offset is a normal float32"


def gain_range_cases(ctx, report):
    """32-bit requests whose gain / offset cannot be held by float32 but whose exact result can"""
    import numpy as np
    from nitypes.waveform import AnalogWaveform, ComplexWaveform, LinearScaleMode
    f32max = Fraction(float(np.finfo(np.float32).max))
    f32tiny = Fraction(float(np.finfo(np.float32).tiny))
    cases = [(np.float32, [1e-3, -2e-3], 1e39, 0.0), (np.float32, [1e-4], -3e39, 5.0), (np.float64, [1e-3], 1e39, 0.0), (np.int16, [3], 1e-46, 0.0),
             (np.float32, [1e9], 1e-46, 1.0), (np.float32, [1e-30], 1e39, 1e39), (np.complex64, [1e-3 + 2e-3j], 1e39, 0.0)]
    n = 0
    for raw_dt, vals, g, o in cases:
        cplx = np.dtype(raw_dt).kind == "c"
        cls = ComplexWaveform if cplx else AnalogWaveform
        w = cls.from_array_1d(np.array(vals, raw_dt), raw_dt, scale_mode=LinearScaleMode(g, o))
        req = np.complex64 if cplx else np.float32
        import warnings
        with np.errstate(all="ignore"), warnings.catch_warnings():
            warnings.simplefilter("ignore")
            r = outcome(lambda: w.get_scaled_data(req))
        n += 1
        ctx.case(("gain-range", str(np.dtype(raw_dt)), g, o))
        if r[0] != "ok":
            report(dict(raw_dtype=str(np.dtype(raw_dt)), gain=g, offset=o, observed=show(r)[:120], required="scaled data"))
            continue
        for k, z in enumerate(r[1].tolist()):
            x = np.array(vals, raw_dt)[k]
            parts = [(float(np.real(x)), True), (float(np.imag(x)), False)] if cplx else [(float(x), True)]
            got = [np.real(z), np.imag(z)] if cplx else [z]
            for (xv, is_real), gv in zip(parts, got):
                conv = rne(Fraction(xv), 24)
                exact = Fraction(g) * conv + (Fraction(o) if is_real else 0)
                if not (f32tiny <= abs(exact) <= f32max / 4):
                    continue
                tol = 4 * ulp(max(abs(exact), abs(Fraction(o)) if is_real else 0), 24)
                bad = not np.isfinite(gv) or abs(Fraction(float(gv)) - exact) > tol
                if bad:
                    report(dict(raw_dtype=str(np.dtype(raw_dt)), raw=str(x), gain=g, offset=o, requested=str(np.dtype(req)), observed=repr(gv),
                                required=f"{float(exact)!r} (tolerance {float(tol)!r})"))
    return n


def _known_witness(ctx):
    hits = []
    gain_range_cases(ctx, hits.append)
    return bool(hits)


KNOWN_MATCH = {"C11-F1": lambda v: v.get("site") == KNOWN_SITE and v.get("when") == KNOWN_WHEN}
KNOWN_WITNESS = {"C11-F1": _known_witness}


def replay(doc):
    print(doc.get("input"))
    return 0
