"""Shared pieces of the per-property harnesses (DESIGN.md §2.2)."""
from __future__ import annotations

import builtins

BUILTIN_BASES = ["ZeroDivisionError", "OverflowError", "IndexError", "KeyError", "TypeError", "ValueError",
                 "AttributeError", "AssertionError", "RuntimeError", "StopIteration", "ArithmeticError",
                 "LookupError", "Exception"]


def base_of(e: BaseException) -> str:
    """The builtin class an exception derives from, at the granularity the properties use."""
    for c in type(e).__mro__:
        if c.__name__ in BUILTIN_BASES and getattr(builtins, c.__name__, None) is c:
            return c.__name__
    return type(e).__name__


def render(v) -> str:
    """Same canonical text as NiVerif/Py/Render.lean."""
    if v is None:
        return "None"
    if isinstance(v, bool):
        return "True" if v else "False"
    if isinstance(v, int):
        return str(int(v))
    if isinstance(v, str):
        return "s:" + v
    if isinstance(v, tuple):
        # nested pairs render right-associated like Lean products
        if len(v) == 2:
            return f"({render(v[0])},{render(v[1])})"
        return f"({render(v[0])},{render(tuple(v[1:]))})"
    if isinstance(v, list):
        return "[" + ",".join(render(x) for x in v) + "]"
    raise TypeError(f"cannot render {type(v)}")


def outcome(fn, *a, **kw):
    """('ok', value) or ('err', BaseName, ClassName)."""
    try:
        return ("ok", fn(*a, **kw))
    except Exception as e:  # noqa: BLE001 - the harness classifies every exception
        return ("err", base_of(e), type(e).__name__)


def show(o) -> str:
    """Crash-proof description of an outcome / value for replay files (never calls repr on bintime values)."""
    try:
        if isinstance(o, tuple) and len(o) >= 2 and o[0] == "ok":
            v = o[1]
            if hasattr(v, "ticks"):
                return f"ok {type(v).__name__}(ticks={v.ticks})"
            return f"ok {v!r}"
        if isinstance(o, tuple) and o and o[0] == "err":
            return "raised " + "/".join(o[1:])
        if hasattr(o, "ticks"):
            return f"{type(o).__name__}(ticks={o.ticks})"
        return repr(o)
    except Exception as e:  # noqa: BLE001
        return f"<unprintable {type(o).__name__}: {type(e).__name__}>"


def render_outcome(o, raises: bool = True) -> str:
    """Text the Lean driver prints for `Except PyErr α` (raises=True) or a plain value."""
    if o[0] == "ok":
        return ("ok " if raises else "") + render(o[1])
    return f"err {o[1]}"


def norm_model(line: str) -> str:
    """Model lines are `err <Name> <Base>`: compare at the base-class level."""
    if line.startswith("err "):
        parts = line.split()
        return "err " + parts[-1]
    return line


I128_MIN, I128_MAX = -(1 << 127), (1 << 127) - 1
T64 = 1 << 64


def edge_ticks() -> list[int]:
    """The edge lattice of 128-bit tick values (DESIGN.md §2.2), including out-of-range integers."""
    out = set()
    for k in (0, 1, 2, 31, 32, 53, 62, 63, 64, 65, 95, 96, 126, 127, 128):
        for d in (-2, -1, 0, 1, 2):
            out.add((1 << k) + d)
            out.add(-(1 << k) + d)
    for w in (0, 1, -1, 2, -2, 86399, 86400, -86400, 59, 60, 3600, (1 << 63) - 1, -(1 << 63), 3_000_000_000):
        for f in (0, 1, 2, T64 - 1, T64 - 2, T64 // 2, T64 // 2 - 1, T64 // 2 + 1, T64 // 3, T64 // 10,
                  T64 - 10, 9223372036854775808 + 5):
            out.add(w * T64 + f)
    # fractions adjacent to decimal boundaries k * 2^64 / 10^6
    for k in (1, 2, 999_999, 500_000, 123_456, 100, 10):
        b = k * T64 // 10**6
        for d in (-2, -1, 0, 1, 2):
            out.add(b + d)
            out.add(-5 * T64 + b + d)
    # fractions that round up to a whole second at 18 digits
    for d in range(0, 12):
        out.add(T64 - 1 - d)
        out.add(7 * T64 - 1 - d)
        out.add(-3 * T64 + T64 - 1 - d)
    for w in (0, 5, -5, 86399, -86400):
        for f in structured_fractions():
            out.add(w * T64 + f)
    return sorted(out)


def structured_fractions() -> list[int]:
    """Fractional tick values (0 <= f < 2^64) whose decimal sub-fields vanish selectively: dyadic fractions k/2^n (yoctosecond
    0 with femtosecond != 0 for 7 <= n <= 15), exact microsecond / femtosecond multiples, sub-femtosecond values."""
    out = set()
    for n in range(1, 25):
        for k in (1, 3, (1 << n) - 1, (1 << n) // 2 + 1):
            if 0 < k < (1 << n):
                out.add(k << (64 - n))
    for k in (1, 7, 999_999, 500_000, 7812, 123_456):
        b = -((-k * T64) // 10**6)
        out.update((b - 1, b, b + 1))
    for k in (1, 999, 10**9 - 1, 10**9, 10**9 + 1, 123_456_789_012_345):
        b = -((-k * T64) // 10**15)
        out.update((b - 1, b, b + 1))
    out.update((1, 2, 18446, 18447, 18_446_744, 18_446_745))
    return sorted(f for f in out if 0 <= f < T64)


def rand_ticks(rng, in_range_only: bool = False) -> int:
    c = rng.random()
    if c < 0.35:
        return rng.randint(I128_MIN, I128_MAX)
    if c < 0.55:
        return rng.randint(-(1 << 70), 1 << 70)
    if c < 0.7:
        return rng.randint(-(1 << 40), 1 << 40) * T64 + rng.choice([0, 1, T64 - 1, T64 // 2, rng.randrange(T64)])
    if c < 0.8:
        return rng.randint(-1000, 1000)
    if c < 0.9 or in_range_only:
        k = rng.randrange(0, 127)
        return rng.choice([-1, 1]) * ((1 << k) + rng.randint(-3, 3))
    # out of range
    return rng.choice([I128_MAX + rng.randint(1, 1 << 64), I128_MIN - rng.randint(1, 1 << 64),
                       rng.randint(-(1 << 140), 1 << 140)])


def translation_validation(ctx, cases):
    """cases: iterable of (entry, [int args], python_thunk, raises: bool).

    Runs every generated Lean definition named by `entry` on the int arguments through the line
    protocol and compares with the Python function it was generated from.  Returns the number of
    compared cases; disagreements are recorded as mismatches (translator or code drift).
    """
    cases = list(cases)
    lines = [f"gen {e} " + " ".join(str(a) for a in args) for e, args, _, _ in cases]
    res = ctx.model(lines) if lines else []
    n = 0
    for i, (e, args, thunk, raises) in enumerate(cases):
        o = outcome(thunk)
        want = render_outcome(o, raises)
        ctx.count("translation_validation", e)
        ctx.count("outcome", o[0] if o[0] == "ok" else o[1])
        if res is None:
            continue
        got = norm_model(res[i])
        n += 1
        if got != want:
            ctx.mismatch(stream="translation-validation", request=lines[i], model_says=res[i], code_says=want)
    return n
