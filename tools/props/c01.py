"""C01 — Waveform sample buffers match a plain list model after every operation history."""
from __future__ import annotations

from props import wfm_harness as H

PID = "C01"
LEAN_MODULE = "NiVerif.Props.C01"
NAMESPACE = "Props.C01"
DRIVER = "drivers/Wfm.lean"
GEN_MODULES = ["Geometry", "Args", "SrcReads"]
EXTRA_LEAN_MODULES = ["NiVerif.Model.WfmProto", "NiVerif.Props.Args", "NiVerif.Props.SrcReads", "NiVerif.Py.SrcReads"]
THEOREMS = ["view_shape", "ctorNew_spec", "ctorArr_spec", "setCapacity_spec", "setCount_spec", "setTiming_spec",
            "writeView_spec", "getData_spec", "increaseCapacity_spec", "appendArray_spec", "copyAll_spec",
            "appendWaveforms_spec", "loadData_spec", "inv_step", "inv_reachable", "view_refines",
            "Proofs.Wfm.view_append", "Proofs.Wfm.view_load", "Proofs.Wfm.view_grow", "Proofs.Wfm.view_write",
            "Proofs.Wfm.window_ok",
            "gen_window_eq_model", "gen_window_inside", "gen_provided_geometry_eq_model", "gen_provided_geometry_invariant", "gen_new_geometry_eq_model",
            "gen_new_geometry_invariant", "gen_set_sample_count_eq_model", "gen_set_capacity_eq_model", "gen_set_capacity_keeps_window",
            "Props.Args.gen_arg_to_int_spec", "Props.Args.gen_arg_to_int_plain", "Props.Args.gen_arg_to_uint_eq_prelude", "Props.Args.gen_arg_to_uint_plain", "Props.Args.gen_arg_to_uint_kind_independent",
            # T28: the copying paths read their sources before a resize can make them stale (Gen/SrcReads.lean, Py/SrcReads.lean)
            "Props.SrcReads.gen_sources_read_safely", "Props.SrcReads.gen_paths_cover", "Props.SrcReads.gen_paths_resize_then_write",
            "Py.SrcReads.unguarded_read_after_resize_refused", "Py.SrcReads.weak_guard_in_loop_refused", "Py.SrcReads.conditional_guard_in_loop_refused", "Py.SrcReads.conditional_guard_single_write_safe", "Py.SrcReads.guarded_read_safe", "Py.SrcReads.late_guard_refused",
            "Py.SrcReads.run_append", "Py.SrcReads.safe_prefix", "Py.SrcReads.write_ok_iff", "Py.SrcReads.resize_stales"]
RULE = ("seeded histories of 1-14 (thorough: up to 40) public calls per object on the four container classes x every "
        "supported raw dtype: construction from sizes or arrays, append of arrays / waveforms / sequences, load_data "
        "with and without copy and with sub-ranges, capacity / sample_count / timing assignment, writes through the data "
        "view, get_(raw_)data windows, pickling; owned, borrowed (view, strided) and caller-kept buffers, valid and "
        "invalid arguments interleaved; after every call the real object is compared with a plain Python list model "
        "(oracle) and with Model/Wfm.lean; non-trivial = distinct protocol line")
TRUSTED = ["hand model NiVerif/Model/Wfm.lean of the buffer machine (NumPy zeros/full, slice assignment, in-place "
           "resize keeping the prefix, ValueError on arrays that do not own their data) — compared with the real "
           "objects after every call of every generated history"]
ASSUMPTIONS = ["sample values are small integers representable in every dtype; dtypes are opaque tags",
               "dangling NumPy views after resize(refcheck=False) (memory safety) are not exhibited by any model"]


def parse_rows(tok):
    return [] if tok == "_" else [[int(v) for v in r.split(";")] for r in tok.split("|")]


def parse_arr(tok):
    d, nd, nc, ow, rows = tok.split(":")
    return parse_rows(rows)


def opt(tok):
    return None if tok == "-" else int(tok)


def snap_fields(s):
    f = dict(x.split("=", 1) for x in s.split(" "))
    return f


def oracle(ctx, world):
    """The property as a predicate over observations of the real objects: a plain list model per object."""
    model = {}
    for r in world.records:
        if r.get("malformed"):
            continue
        t = r["line"].split()
        op, name = t[0], t[1]
        ok = r["err"] is None
        if op == "wpickle":
            name = t[2]
        snap = r["after"].get(name)
        if snap is None:
            continue
        if "UNOBSERVABLE" in snap:
            ctx.violation(what="after a call the waveform can no longer be observed (its accessors raise)", line=r["line"][:200], observed=snap[:200],
                          required="a consistent waveform")
            return
        f = snap_fields(snap)
        rows = parse_rows(f["data"])
        start, count, cap, ncols = int(f["start"]), int(f["count"]), int(f["cap"]), int(f["ncols"])
        if not (0 <= start and start + count <= cap and len(rows) == count and all(len(x) == ncols for x in rows)):
            ctx.violation(what="invariant", line=r["line"][:200], observed=snap[:200],
                          required="0 <= start, start+count <= capacity, view has count rows of signal_count columns")
        if op == "wget":
            if ok:
                s, n = opt(t[2]) or 0, opt(t[3])
                exp = model[name][s:] if n is None else model[name][s:s + n]
                got = [[int(v) for v in x] for x in (r["res"].tolist() if r["res"].ndim == 2 else [[H.to_int(v)] for v in r["res"]])] \
                    if hasattr(r["res"], "ndim") else None
                got = parse_rows(world.expect[r["idx"]][3:]) if True else got
                if got != exp:
                    ctx.violation(what="get window", line=r["line"], observed=str(got)[:200], required=str(exp)[:200])
            elif r["err"][0] != "ValueError":
                ctx.violation(what="get window", line=r["line"], observed=r["err"], required="sub-list or ValueError")
            continue
        if not ok:
            if name in model and rows != model[name]:
                ctx.violation(what="rejected call changed the data", line=r["line"][:200], observed=str(rows)[:200],
                              required=str(model[name])[:200])
            continue
        if op == "wnew":
            fill = int(t[9])
            exp = [[fill] * ncols for _ in range(count)]
        elif op == "warr":
            a = parse_arr(t[3])
            s = opt(t[6]) or 0
            n = opt(t[7])
            exp = a[s:] if n is None else a[s:s + n]
        elif op == "wappa":
            exp = model[name] + parse_arr(t[2])
        elif op == "wappw":
            exp = list(model[name])
            for src in t[2].split(","):
                exp += model[src]
        elif op == "wload":
            a = parse_arr(t[2])
            s = opt(t[4]) or 0
            n = opt(t[5])
            exp = a[s:] if n is None else a[s:s + n]
        elif op == "wsetcount":
            v = int(t[2])
            old = model[name]
            if v <= len(old):
                exp = old[:v]
            else:
                exp = rows
                if rows[: len(old)] != old:
                    ctx.violation(what="sample_count growth lost samples", line=r["line"], observed=str(rows)[:200], required=str(old)[:200])
        elif op in ("wsetcap", "wsettiming"):
            exp = model[name]
        elif op == "wwrite":
            i = int(t[2])
            exp = [list(x) for x in model[name]]
            if not (-len(exp) <= i < len(exp)):
                ctx.violation(what="a write through the data view was accepted at an index the list model does not have", line=r["line"][:200],
                              observed=f"accepted; view has {len(rows)} rows", required=f"IndexError (the list has {len(exp)} samples)")
                model[name] = rows
                continue
            exp[i] = [int(v) for v in t[3].split(";")]
        elif op == "wpickle":
            exp = model[t[1]]
        else:
            continue
        if rows != exp:
            ctx.violation(what="view differs from the list model", line=r["line"][:300], observed=str(rows)[:300], required=str(exp)[:300])
        model[name] = rows


def borrowed_and_factory_cases(ctx):
    """single calls on borrowed / read-only buffers and on objects built by the copying factories, judged by the list model"""
    import numpy as np
    from nitypes.waveform import AnalogWaveform, ComplexWaveform, DigitalWaveform, Spectrum
    from props.common import outcome, show

    def rows(obs):
        dtype, shape, raw = obs["data"]
        a = np.frombuffer(raw, dtype).reshape(shape)
        return [[complex(v) if a.dtype.kind == "c" else float(v) for v in np.atleast_1d(r)] for r in a]

    def judge(info, w, before, o, after):
        if "UNOBSERVABLE" in after:
            ctx.violation(what="object can no longer be observed after a call", observed=str(after)[:200], required="a consistent waveform", **info)
            return False
        if o[0] == "err":
            if after != before:
                diff = [k for k in before if before.get(k) != after.get(k)]
                ctx.violation(what="a rejected call lost / changed samples or geometry", changed=str(diff), observed=str({k: after.get(k) for k in diff})[:300],
                              required=str({k: before.get(k) for k in diff})[:300], **info)
                return False
            return True
        b, a = rows(before), rows(after)
        call = info["call"]
        ncols = len(b[0]) if b else (2 if info["ndim"] == 2 else 1)
        one = [1.0 + 0j if isinstance((b or [[0.0]])[0][0], complex) else 1.0] * ncols
        if call.startswith("append-array-") or call.startswith("append-waveform-"):
            exp = b + [one] * int(call.rsplit("-", 1)[1])
        elif call.startswith("append-waveforms-"):
            exp = b + [one] * int(call.rsplit("-", 1)[1])
        elif call.startswith("load-copy-"):
            exp = [one] * len(a)
        else:
            exp = b
        ok = a == exp and after["count"] == len(a) and after["start"] + after["count"] <= after["capacity"]
        if not ok:
            ctx.violation(what="view differs from the list model after an accepted call", observed=str(a)[:200], required=str(exp)[:200], **info)
            return False
        return True
    n = H.borrowed_cases(ctx, judge, quick_subset=ctx.quick)
    # objects built by the copying factories own their samples: every growth must succeed and keep the samples
    rng = ctx.rng
    for cls, dtype in ((AnalogWaveform, np.float64), (AnalogWaveform, np.int16), (ComplexWaveform, np.complex128), (Spectrum, np.float64)):
        base = (np.arange(12) % 7).astype(dtype).reshape(3, 4)
        sources = {"2d-array": base, "2d-F": np.asfortranarray(base), "2d-view": np.arange(40).astype(dtype).reshape(5, 8)[1:4, 2:6],
                   "2d-nested": base.tolist() if dtype != np.complex128 else [[complex(v) for v in r] for r in base.tolist()]}
        for sname, src in sources.items():
            for op in ("append", "load", "capacity", "append-waveform"):
                o = outcome(lambda: cls.from_array_2d(src, dtype, copy=True))
                if o[0] != "ok":
                    ctx.violation(what="from_array_2d refused valid input", cls=cls.__name__, source=sname, observed=show(o)[:200], required="waveforms")
                    return n
                for i, w in enumerate(o[1]):
                    row = [v for v in np.asarray(src)[i].tolist()]
                    n += 1
                    ctx.case(("factory", cls.__name__, str(np.dtype(dtype)), sname, op, i))
                    more = np.arange(1, 4).astype(dtype)
                    getd = (lambda x: x.data) if cls is Spectrum else (lambda x: x.raw_data)
                    if op == "append":
                        r = outcome(lambda: w.append(more)); exp = row + more.tolist()
                    elif op == "load":
                        big = np.arange(9).astype(dtype)
                        r = outcome(lambda: w.load_data(big)); exp = big.tolist()
                    elif op == "capacity":
                        r = outcome(lambda: setattr(w, "capacity", 11)); exp = row
                    else:
                        other = cls.from_array_1d(more, dtype)
                        r = outcome(lambda: w.append(other)); exp = row + more.tolist()
                    got = getd(w).tolist() if r[0] == "ok" else None
                    if r[0] != "ok" or got != exp:
                        ctx.violation(what="a waveform built by from_array_2d(copy=True) could not grow / lost samples", cls=cls.__name__, source=sname,
                                      row=i, op=op, observed=show(r)[:160] if r[0] != "ok" else str(got), required=str(exp))
                        return n
    # sizes and indices given as narrow NumPy integer scalars on waveforms longer than those types can count: the geometry
    # must be the one the same Python ints give (fixed-width arithmetic must not leak into the index computations)
    def geom(w):
        d = w.data if not hasattr(w, "raw_data") else w.raw_data
        return (w.start_index, w.sample_count, w.capacity, len(d))
    NP = [np.uint8, np.int8, np.int16, np.uint16, np.int64, np.uint64]
    big = {"analog": lambda n: AnalogWaveform.from_array_1d(np.arange(n, dtype=np.float64), np.float64),
           "spectrum": lambda n: Spectrum.from_array_1d(np.arange(n, dtype=np.float64), np.float64),
           "digital": lambda n: DigitalWaveform.from_lines((np.arange(n) % 2).astype(np.uint8))}
    for kname, mkbig in big.items():
        for n_samples in (250, 300, 40000):
            for a, b in ((200, 100), (200, 50), (100, 200), (10, None), (250, 0), (255, 1), (127, 1), (128, 127), (32767, 1), (30000, 9000)):
                for T in NP:
                    info = np.iinfo(T)
                    if not (info.min <= a <= info.max and (b is None or info.min <= b <= info.max)):
                        continue
                    if n_samples == 40000 and T not in (np.int16, np.uint16):
                        continue
                    ta, tb = T(a), (None if b is None else T(b))
                    w = mkbig(n_samples)
                    getter = w.get_data if hasattr(w, "get_data") and not hasattr(w, "get_raw_data") else w.get_raw_data
                    r = outcome(getter, ta, tb)
                    cnt = (n_samples - a) if b is None else b
                    fits = a <= n_samples and a + cnt <= n_samples
                    n += 1
                    ctx.case(("npint-window", kname, n_samples, a, b, T.__name__))
                    if fits != (r[0] == "ok") or (r[0] == "ok" and len(r[1]) != cnt) or (r[0] == "err" and r[1] != "ValueError"):
                        ctx.violation(what="window given as NumPy integer scalars", cls=kname, samples=n_samples, start=repr(ta), count=repr(tb),
                                      observed=show(r)[:120] if r[0] != "ok" else f"{len(r[1])} samples", required=f"{cnt} samples" if fits else "ValueError")
                        return n
                    # load_data(copy=False, start, count) and the constructor window
                    src = np.arange(n_samples, dtype=np.float64) if kname != "digital" else (np.arange(n_samples) % 2).astype(np.uint8)
                    w2 = mkbig(3)
                    r = outcome(lambda: w2.load_data(src, copy=False, start_index=ta, sample_count=tb))
                    g = geom(w2)
                    if fits != (r[0] == "ok") or (r[0] == "ok" and (g[1] != cnt or g[3] != cnt)) or (r[0] != "ok" and g != (0, 3, 3, 3)):
                        ctx.violation(what="load_data window given as NumPy integer scalars", cls=kname, samples=n_samples, start=repr(ta), count=repr(tb),
                                      observed=f"{show(r)[:80]} geometry {g}", required=f"sample_count {cnt} and as many samples" if fits else "ValueError, unchanged")
                        return n
        for T in NP:
            # sized constructor + append across the type's range
            info = np.iinfo(T)
            c0 = min(200, info.max)
            if kname == "digital":
                r = outcome(lambda: DigitalWaveform(T(c0), 1, capacity=400))
            else:
                r = outcome(lambda: {"analog": AnalogWaveform, "spectrum": Spectrum}[kname](T(c0), capacity=400))
            if r[0] != "ok":
                ctx.violation(what="sized constructor refused a NumPy integer size", cls=kname, size=repr(T(c0)), observed=show(r)[:120], required="a waveform")
                return n
            w = r[1]
            extra = np.ones(100, np.float64) if kname != "digital" else np.ones(100, np.uint8)
            r2 = outcome(w.append, extra)
            g = geom(w)
            n += 1
            ctx.case(("npint-size", kname, T.__name__))
            if r2[0] != "ok" or g[1] != c0 + 100 or g[3] != c0 + 100 or g[0] + g[1] > g[2]:
                ctx.violation(what="append after a constructor called with a NumPy integer size", cls=kname, size=repr(T(c0)),
                              observed=f"{show(r2)[:80]} geometry {g}", required=f"{c0 + 100} samples")
                return n
            if kname == "spectrum":
                continue            # Spectrum has no sample_count setter
            w = mkbig(3)
            w.capacity = 400
            r3 = outcome(setattr, w, "sample_count", T(min(120, info.max)))
            r4 = outcome(w.append, extra)
            g = geom(w)
            if r3[0] != "ok" or r4[0] != "ok" or g[1] != min(120, info.max) + 100 or g[3] != g[1]:
                ctx.violation(what="append after assigning a NumPy integer sample_count", cls=kname, observed=f"{show(r3)[:60]} {show(r4)[:60]} geometry {g}",
                              required=f"{min(120, info.max) + 100} samples")
                return n
    for label, mk in (("from_lines-1d", lambda: DigitalWaveform.from_lines(np.array([1, 0, 1], np.uint8))),
                      ("from_lines-2d", lambda: DigitalWaveform.from_lines(np.array([[1, 0], [0, 1]], np.uint8))),
                      ("from_lines-view", lambda: DigitalWaveform.from_lines(np.arange(12, dtype=np.uint8).reshape(6, 2)[1:4] % 2)),
                      ("from_lines-list", lambda: DigitalWaveform.from_lines([[1, 0], [0, 1]])),
                      ("from_lines-transposed", lambda: DigitalWaveform.from_lines((np.arange(12, dtype=np.uint8) % 7).reshape(3, 4).T)),
                      ("from_lines-fortran-nocopy", lambda: DigitalWaveform.from_lines(np.asfortranarray((np.arange(12, dtype=np.uint8) % 7).reshape(4, 3)), copy=False)),
                      ("ctor-fortran", lambda: DigitalWaveform(data=np.asfortranarray((np.arange(8, dtype=np.uint8) % 5).reshape(4, 2)))),
                      ("load-fortran-nocopy", lambda: (lambda w: (w.load_data(np.asfortranarray((np.arange(6, dtype=np.uint8) % 5).reshape(3, 2)), copy=False), w)[1])(DigitalWaveform(1, 2))),
                      ("from_port", lambda: DigitalWaveform.from_port(np.array([1, 2, 3], np.uint8), 0x03)),
                      ("from_ports", lambda: DigitalWaveform.from_ports(np.array([[1, 2, 3], [4, 5, 6]], np.uint8), [0x03, 0x07])[1])):
        for op in ("append", "capacity", "load", "trim", "grow-trim"):
            w = mk()
            b = w.data.tolist()
            nc = w.signal_count
            n += 1
            ctx.case(("factory", "DigitalWaveform", label, op))
            if op == "append":
                extra = np.ones((4, nc), np.uint8)
                r = outcome(lambda: w.append(extra)); exp = b + extra.tolist()
            elif op == "capacity":
                r = outcome(lambda: setattr(w, "capacity", w.capacity + 5)); exp = b
            elif op == "trim":
                # drop the last sample, then give the slack back: the remaining samples stay what they were
                def f():
                    w.sample_count = max(0, len(b) - 1)
                    w.capacity = w.start_index + w.sample_count
                r = outcome(f); exp = b[:max(0, len(b) - 1)]
                if r[0] == "err" and not w._data.flags.owndata and not w._data.flags.c_contiguous:
                    continue        # a strided view that NumPy cannot resize: a refusal, not a wrong sample
            elif op == "grow-trim":
                def f():
                    w.capacity = w.capacity + 5
                    w.capacity = w.capacity - 3
                r = outcome(f); exp = b
            else:
                big = np.zeros((w.capacity + 3, nc), np.uint8)
                r = outcome(lambda: w.load_data(big)); exp = big.tolist()
            got = w.data.tolist() if r[0] == "ok" else None
            if r[0] != "ok" or got != exp:
                ctx.violation(what="a DigitalWaveform built by a copying factory could not grow / lost samples", factory=label, op=op,
                              observed=show(r)[:160] if r[0] != "ok" else str(got)[:200], required=str(exp)[:200])
                return n
    return n


def reads_change_nothing(ctx):
    """every public READ (raw and scaled data, whole and windowed, every requested dtype, repr, equality, iteration over signals) between
    the operations of a history: the list model is what was constructed / appended / loaded, whatever was looked at in between"""
    import numpy as np
    from nitypes.waveform import AnalogWaveform, ComplexWaveform, DigitalWaveform, LinearScaleMode, NO_SCALING, Spectrum
    from nitypes.complex import ComplexInt32DType
    from props.common import outcome
    n = 0
    combos = []
    for dt_ in (np.int16, np.int32, np.float32, np.float64):
        combos.append((AnalogWaveform, dt_, np.array([1, -2, 3], dt_), [np.float32, np.float64, None]))
    for dt_ in (np.complex64, np.complex128):
        combos.append((ComplexWaveform, dt_, np.array([1 + 2j, 3 - 4j, -5 + 6j], dt_), [np.complex64, np.complex128, None]))
    ci = np.zeros(3, ComplexInt32DType); ci["real"] = [1, -2, 3]; ci["imag"] = [4, 5, -6]
    combos.append((ComplexWaveform, ComplexInt32DType, ci, [np.complex64, np.complex128, None]))
    for cls, dt_, src, reqs in combos:
        for sm in (NO_SCALING, LinearScaleMode(2.0, 0.5), LinearScaleMode(-3, 0)):
            for copy_flag in (True, False):
                base = src.copy()
                w = cls.from_array_1d(base, dt_, copy=copy_flag, scale_mode=sm)
                model = [x for x in src.tolist()]
                for step in range(3):
                    for req in reqs:
                        for win in ((), (1, 1), (0, 2)):
                            outcome(lambda: w.get_scaled_data(*(([req] if req is not None else [None]) + list(win))) if win else (w.get_scaled_data(req) if req is not None else w.get_scaled_data()))
                        outcome(lambda: w.scaled_data)
                    outcome(lambda: repr(w)); outcome(lambda: w == w); outcome(lambda: w.get_raw_data(0, 1))
                    got = w.raw_data.tolist()
                    n += 1
                    ctx.case(("reads", cls.__name__, str(np.dtype(dt_)), repr(sm)[:40], copy_flag, step))
                    ctx.count("reads-change-nothing", cls.__name__)
                    if got != model or (not copy_flag and base.tolist() != model[:len(base)]):
                        ctx.violation(what="reading data changed the samples", cls=cls.__name__, dtype=str(np.dtype(dt_)), scale_mode=repr(sm)[:60], copy=copy_flag,
                                      after_reads=step + 1, observed=str(got)[:200], required=str(model)[:200])
                        break
                    extra = src[:2].copy()
                    w.append(extra)
                    model = model + extra.tolist()
                else:
                    continue
                break
    for cls, mk in ((DigitalWaveform, lambda: DigitalWaveform.from_lines(np.array([[0, 1], [1, 0]], np.uint8))), (Spectrum, lambda: Spectrum.from_array_1d(np.array([1.0, 2.0]), np.float64))):
        w = mk()
        model = w.data.tolist()
        for _ in range(2):
            outcome(lambda: repr(w)); outcome(lambda: w == mk()); outcome(lambda: w.get_data(0, 1))
            if hasattr(w, "signals"):
                outcome(lambda: [s_.data.tolist() for s_ in w.signals]); outcome(lambda: w.test(mk()))
        n += 1
        if w.data.tolist() != model:
            ctx.violation(what="reading data changed the samples", cls=cls.__name__, observed=str(w.data.tolist()), required=str(model))
    return n


def self_aliasing_appends(ctx):
    """append() of an array that is (a view of) the receiver's own samples or of the caller's array that backs it: the list model
    says `samples += the values the argument had when the call was made`, whether or not the buffer has to grow for them"""
    import numpy as np
    from nitypes.waveform import AnalogWaveform, ComplexWaveform, DigitalWaveform, Spectrum
    from props.common import outcome, show
    n = 0
    for cls, kind, dty in ((AnalogWaveform, "a", np.int64), (AnalogWaveform, "a", np.float32), (ComplexWaveform, "a", np.complex128), (Spectrum, "s", np.float64), (DigitalWaveform, "d", np.uint8)):
        for size in (4, 9, 50000):
            for slack in (0, 2, size):
                for how in ("whole", "tail", "head", "strided", "backing-array", "object-whole", "object-tail", "objects-tail+whole"):
                    vals = (np.arange(size) % 2 if kind == "d" else np.arange(1, size + 1)).astype(dty)
                    if how == "backing-array":
                        buf = np.concatenate([vals, np.zeros(slack, dty)])
                        if kind == "d":
                            buf = buf.reshape(-1, 1)
                            w = DigitalWaveform(data=buf, sample_count=size)
                        elif kind == "s":
                            w = Spectrum(data=buf, sample_count=size)
                        else:
                            w = cls(raw_data=buf, sample_count=size)
                        arg = buf
                    else:
                        if kind == "d":
                            w = DigitalWaveform.from_lines(vals.reshape(-1, 1))
                        else:
                            w = cls.from_array_1d(vals, dty)
                        if slack:
                            w.capacity = size + slack
                        view = w.data if kind in ("s", "d") else w.raw_data
                        def obj(v):
                            # another waveform / spectrum built, without copying, on (part of) the receiver's samples
                            return DigitalWaveform.from_lines(v, copy=False) if kind == "d" else cls.from_array_1d(v, dty, copy=False)
                        arg = {"whole": lambda: view, "tail": lambda: view[size // 2:], "head": lambda: view[: size // 2 + 1], "strided": lambda: view[::2],
                               "object-whole": lambda: obj(view), "object-tail": lambda: obj(view[size // 2:]),
                               "objects-tail+whole": lambda: [obj(view[size // 2:]), obj(view)]}[how]()
                    before = (w.data if kind in ("s", "d") else w.raw_data).copy()
                    if how.startswith("object"):
                        argvals = np.concatenate([np.array(x.data if kind in ("s", "d") else x.raw_data, copy=True) for x in (arg if isinstance(arg, list) else [arg])])
                    else:
                        argvals = np.array(arg, copy=True)
                    o = outcome(w.append, arg)
                    after = (w.data if kind in ("s", "d") else w.raw_data)
                    n += 1
                    ctx.case(("self-alias", cls.__name__, str(np.dtype(dty)), size, slack, how))
                    ctx.count("self-alias", how)
                    if o[0] == "ok":
                        want = np.concatenate([before, argvals])
                        if after.shape != want.shape or not np.array_equal(after, want):
                            k = int(np.argmax((after != want).reshape(len(want), -1).any(axis=1))) if after.shape == want.shape else None
                            ctx.violation(what="append of (a view of) the receiver's own samples", cls=cls.__name__, dtype=str(np.dtype(dty)), samples=size, spare_capacity=slack, argument=how,
                                          first_wrong_sample=k, observed=(f"shape {after.shape}" if k is None else str(after[k])), required=(f"shape {want.shape}" if k is None else str(want[k])))
                            return n
                    elif not np.array_equal(after, before) or w.sample_count != size:
                        ctx.violation(what="a refused append changed the waveform", cls=cls.__name__, argument=how, samples=size, spare_capacity=slack,
                                      observed=f"{show(o)[:100]}; count {w.sample_count} capacity {w.capacity}", required="unchanged")
                        return n
    return n


def self_aliasing_loads(ctx):
    """load_data(copy=True) of an array that is a view of the receiver's own samples (broadcast, repeated, reversed, strided, tail),
    shorter or longer than the buffer: the list model says `samples = the values the argument had when the call was made`"""
    import numpy as np
    from nitypes.waveform import AnalogWaveform, ComplexWaveform, DigitalWaveform, Spectrum
    from props.common import outcome, show
    n = 0
    for cls, kind, dty in ((AnalogWaveform, "a", np.float64), (AnalogWaveform, "a", np.int16), (ComplexWaveform, "a", np.complex64), (Spectrum, "s", np.float64), (DigitalWaveform, "d", np.uint8)):
        for size in (3, 8, 4096):
            for how in ("broadcast-long", "broadcast-short", "repeat-strides", "reversed", "tail", "strided", "whole", "window-past-start"):
                for grow_to in (size * 3 + 1, 200000):
                    vals = (np.arange(size) % 2 if kind == "d" else np.arange(1, size + 1)).astype(dty)
                    w = DigitalWaveform.from_lines(vals.reshape(-1, 1)) if kind == "d" else cls.from_array_1d(vals, dty)
                    view = w.data if kind in ("s", "d") else w.raw_data
                    one = view[size // 2: size // 2 + 1]
                    start = None
                    if how == "broadcast-long":
                        arg = np.broadcast_to(one, (grow_to,) + view.shape[1:])
                    elif how == "broadcast-short":
                        arg = np.broadcast_to(one, (max(1, size - 1),) + view.shape[1:])
                    elif how == "repeat-strides":
                        arg = np.lib.stride_tricks.as_strided(view, (grow_to,) + view.shape[1:], (0,) + view.strides[1:], writeable=False)
                    elif how == "reversed":
                        arg = view[::-1]
                    elif how == "tail":
                        arg = view[size // 2:]
                    elif how == "strided":
                        arg = view[::2]
                    elif how == "whole":
                        arg = view
                    else:
                        arg, start = np.broadcast_to(one, (grow_to,) + view.shape[1:]), 5
                    argvals = np.array(arg, copy=True)[(start or 0):]
                    o = outcome(lambda: w.load_data(arg) if start is None else w.load_data(arg, start_index=start))
                    after = w.data if kind in ("s", "d") else w.raw_data
                    n += 1
                    ctx.case(("self-alias-load", cls.__name__, size, how, grow_to))
                    ctx.count("self-alias-load", how)
                    if o[0] != "ok" or after.shape != argvals.shape or not np.array_equal(after, argvals):
                        k = int(np.argmax((after != argvals).reshape(len(argvals), -1).any(axis=1))) if (o[0] == "ok" and after.shape == argvals.shape) else None
                        ctx.violation(what="load_data of (a view of) the receiver's own samples", cls=cls.__name__, dtype=str(np.dtype(dty)), samples=size, argument=how, argument_length=len(arg),
                                      first_wrong_sample=k, observed=(show(o)[:120] if o[0] != "ok" else (f"shape {after.shape}" if k is None else str(after[k]))),
                                      required=(f"shape {argvals.shape}" if k is None else str(argvals[k])))
                        return n
    return n


KNOWN_SITE = "DigitalWaveform.capacity setter: self._data_1d.resize(value, refcheck=False)"
KNOWN_WHEN = "a second DigitalWaveform built with copy=False on the same 1-D array is alive while the array is grown in place and moves"


def shared_1d_growth(ctx, report):
    """Two DigitalWaveforms built with copy=False on ONE 1-D array: growing the first in place resizes the caller's array object
    (refcheck=False); the second keeps its own 2-D view of the old allocation.  Observed without reading freed memory: after the growth
    the second waveform's data no longer lies in the caller's array (and on a read it is whatever the allocator put there)."""
    import numpy as np
    from nitypes.waveform import DigitalWaveform
    n = 0
    for dty in (np.uint8, np.bool_):
        for extra in (4096, 100000, 4000000):
            a = np.array([1, 0, 1, 1, 0, 0, 1, 0], dty)
            w1 = DigitalWaveform.from_lines(a, copy=False)
            w2 = DigitalWaveform.from_lines(a, copy=False)
            before = a.__array_interface__["data"][0]
            w1.append(np.ones(extra, dty))
            n += 1
            ctx.case(("shared-1d-growth", str(np.dtype(dty)), extra))
            moved = a.__array_interface__["data"][0] != before
            if len(a) == 8 + extra and moved and not np.shares_memory(w2.data, a):
                report(dict(site=KNOWN_SITE, when=KNOWN_WHEN, what="a waveform's data is no longer the caller's memory after ANOTHER object grew the shared array",
                            dtype=str(np.dtype(dty)), appended=extra, observed=f"w2.data outside the caller's array (len {len(a)}), w2.capacity {w2.capacity}",
                            required="w2.data is the first 8 samples of the caller's array [1, 0, 1, 1, 0, 0, 1, 0]"))
                break
    return n


def _known_witness(ctx):
    hits = []
    shared_1d_growth(ctx, hits.append)
    return bool(hits)


KNOWN_MATCH = {"C01-F1": lambda v: v.get("site") == KNOWN_SITE and v.get("when") == KNOWN_WHEN}
KNOWN_WITNESS = {"C01-F1": _known_witness}


def owned_after_factory(ctx):
    """Objects built by a factory with copy=True (the default) own their samples: whatever the source was - an array of the requested or
    of another dtype, C- or Fortran-ordered, a row of a 2-D array, a nested list - the next append / capacity change / longer load_data
    behaves as the list model says (the samples followed by the appended ones, ...), never a refusal to grow"""
    import numpy as np
    from nitypes.waveform import AnalogWaveform, ComplexWaveform, DigitalWaveform, Spectrum
    from props.common import outcome, show
    n = 0
    rows = [[1, 2, 3], [4, 5, 6]]
    for cls, kind, dty in ((AnalogWaveform, "a", np.float64), (AnalogWaveform, "a", np.int32), (ComplexWaveform, "a", np.complex128), (Spectrum, "s", np.float64), (DigitalWaveform, "d", np.uint8)):
        for src_dt in (dty, np.int16, np.float32, np.uint8):
            for src_kind in ("C", "F", "list", "rows-of-3d", "transposed"):
                for factory in ("1d", "2d"):
                    for then in ("append1", "append-many", "capacity", "load-longer", "append-object"):
                        if kind == "d":
                            if src_dt not in (np.uint8,) or factory == "2d" and src_kind == "rows-of-3d":
                                continue
                            base = np.array([[1, 0], [0, 1], [1, 1]], np.uint8)
                            src = {"C": base, "F": np.asfortranarray(base), "list": base.tolist(), "rows-of-3d": np.stack([base, base])[1], "transposed": base.T.copy().T}[src_kind]
                            o = outcome(lambda: [DigitalWaveform.from_lines(src)])
                            want0 = [base.tolist()]
                        else:
                            base = np.array(rows, src_dt)
                            src2 = {"C": base, "F": np.asfortranarray(base), "list": base.tolist(), "rows-of-3d": np.stack([base, base])[0], "transposed": base.T.copy().T}[src_kind]
                            if factory == "1d":
                                src1 = src2[0] if not isinstance(src2, list) else src2[0]
                                o = outcome(lambda: [cls.from_array_1d(src1, dty)])
                                want0 = [rows[0]]
                            else:
                                o = outcome(lambda: list(cls.from_array_2d(src2, dty)))
                                want0 = [rows[0], rows[1]]
                        n += 1
                        ctx.case(("owned-after-factory", cls.__name__, str(np.dtype(src_dt)), src_kind, factory, then))
                        if o[0] != "ok":
                            continue                         # refusals of the factory itself are other sections' business
                        for w, w0 in zip(o[1], want0):
                            view = lambda: (w.data if kind in ("s", "d") else w.raw_data)
                            extra = np.array([[1, 1]], np.uint8) if kind == "d" else np.array([7], dty)
                            many = np.repeat(extra, 5000, axis=0)
                            if then == "append1":
                                r, want = outcome(w.append, extra), list(w0) + extra.tolist()
                            elif then == "append-many":
                                r, want = outcome(w.append, many), list(w0) + many.tolist()
                            elif then == "capacity":
                                r, want = outcome(lambda: setattr(w, "capacity", 50)), list(w0)
                            elif then == "load-longer":
                                r, want = outcome(w.load_data, many), many.tolist()
                            else:
                                other = DigitalWaveform.from_lines(extra) if kind == "d" else cls.from_array_1d(extra, dty)
                                r, want = outcome(w.append, other), list(w0) + extra.tolist()
                            got = view().tolist() if r[0] == "ok" else None
                            if r[0] != "ok" or got != (np.array(want).astype(view().dtype).tolist()):
                                ctx.violation(what="an object built by a copying factory does not behave as the owner of its samples", cls=cls.__name__, factory=("from_lines" if kind == "d" else "from_array_" + factory),
                                              source=f"{src_kind} {np.dtype(src_dt)}", requested_dtype=str(np.dtype(dty)), then=then, observed=(show(r)[:160] if r[0] != "ok" else str(got)[:160]),
                                              required=str(want)[:160])
                                return n
    return n


def zero_signal_digital(ctx):
    """DigitalWaveforms without signals (DigitalWaveform(n, 0), from_lines of an (n, 0) array, from_port with mask 0) still count samples:
    seeded histories of appends of (k, 0) arrays / zero-signal waveforms / sequences, loads, capacity and sample_count changes against
    a plain counter"""
    import numpy as np
    from nitypes.waveform import DigitalWaveform
    from props.common import outcome, show
    rng = ctx.rng
    n = 0
    for h in range(40 if ctx.quick else 800):
        n0 = rng.randint(0, 4)
        w = rng.choice([lambda: DigitalWaveform(n0, 0), lambda: DigitalWaveform.from_lines(np.zeros((n0, 0), np.uint8)),
                        lambda: DigitalWaveform.from_port(np.zeros(n0, np.uint8), 0)])()
        count, trace = n0, [f"new({n0}, 0 signals)"]
        for step in range(rng.randint(1, 8)):
            k = rng.choice([0, 1, 1, 2, 3, 17])
            op = rng.choice(["append-array", "append-array", "append-object", "append-list", "load", "set-count", "capacity", "append-1-signal"])
            if op == "append-array":
                r, want = outcome(w.append, np.zeros((k, 0), np.uint8)), count + k
            elif op == "append-object":
                r, want = outcome(w.append, DigitalWaveform(k, 0)), count + k
            elif op == "append-list":
                ks = [rng.choice([0, 1, 2]) for _ in range(rng.randint(0, 3))]
                r, want = outcome(w.append, [DigitalWaveform(x, 0) for x in ks]), count + sum(ks)
            elif op == "load":
                r, want = outcome(w.load_data, np.zeros((k, 0), np.uint8)), k
            elif op == "set-count":
                k = rng.randint(0, max(count, 1))
                r, want = outcome(lambda: setattr(w, "sample_count", k)), (k if k <= w.capacity - w.start_index else None)
            elif op == "capacity":
                k = count + rng.randint(0, 5)
                r, want = outcome(lambda: setattr(w, "capacity", k)), count
            else:
                r, want = outcome(w.append, np.zeros((1, 1), np.uint8)), None
            trace.append(f"{op}({k})")
            n += 1
            ctx.case(("zero-signal", h, step, op))
            ctx.count("zero-signal", op)
            if want is None:
                ok = r[0] == "err" and w.sample_count == count
            else:
                ok = r[0] == "ok" and w.sample_count == want and w.data.shape == (want, 0) and w.signal_count == 0 and w.start_index + want <= w.capacity
                count = want if r[0] == "ok" else count
            if not ok:
                ctx.violation(what="zero-signal digital waveform loses or invents samples", history=" ; ".join(trace)[-300:], observed=f"{show(r)[:80]} sample_count={w.sample_count} data.shape={w.data.shape}",
                              required=("refused, unchanged" if want is None else f"sample_count {want}, data.shape ({want}, 0)"))
                return n
    return n


def windows_over_one_buffer(ctx):
    """Several containers laid over ONE caller array with copy=False (a receiver with spare capacity behind its window and sources whose
    windows lie in that spare region): `receiver.append([s1, s2, ...])` stores the samples the sources showed WHEN THE CALL WAS MADE, in
    order - whether or not the buffer has to grow, whatever the sources overlap"""
    import itertools
    import numpy as np
    from nitypes.waveform import AnalogWaveform, ComplexWaveform, DigitalWaveform, Spectrum
    from props.common import outcome, show
    n = 0
    for cls, kind, dty in ((AnalogWaveform, "a", np.int32), (AnalogWaveform, "a", np.float64), (ComplexWaveform, "a", np.complex128), (Spectrum, "s", np.float64), (DigitalWaveform, "d", np.uint8)):
        for total in (12, 9):
            base_vals = (np.arange(total) % 2 if kind == "d" else np.arange(1, total + 1)).astype(dty)
            windows = [(2, 5), (5, 7), (2, 4), (3, 6), (0, 2), (7, 9), (4, 5)]
            for k in (1, 2, 3):
                for combo in itertools.permutations(range(len(windows)), k):
                    if k == 3 and (combo[0] + combo[1] + combo[2]) % 3:          # a third of the triples
                        continue
                    for with_extra in (False, True):
                        buf = base_vals.copy()
                        def win(a, b):
                            if kind == "d":
                                return DigitalWaveform(data=buf.reshape(-1, 1), start_index=a, sample_count=b - a)
                            if kind == "s":
                                return Spectrum(data=buf, start_index=a, sample_count=b - a)
                            return cls(raw_data=buf, start_index=a, sample_count=b - a)
                        recv = win(0, 2)
                        srcs = [win(*windows[i]) for i in combo]
                        extra = (DigitalWaveform.from_lines(np.array([[1], [1], [0]], np.uint8)) if kind == "d" else cls.from_array_1d(np.array([100, 101, 102]).astype(dty), dty))
                        if with_extra:
                            srcs = [extra] + srcs
                        get = lambda w: np.array(w.data if kind in ("s", "d") else w.raw_data, copy=True).reshape(-1)
                        want = np.concatenate([get(recv)] + [get(x) for x in srcs])
                        o = outcome(recv.append, srcs if len(srcs) > 1 or with_extra else srcs[0])
                        n += 1
                        ctx.case(("windows-one-buffer", cls.__name__, str(np.dtype(dty)), total, combo, with_extra))
                        if o[0] != "ok":
                            continue                     # a refusal (the borrowed buffer cannot grow) is not this section's business
                        got = get(recv)
                        if got.shape != want.shape or not np.array_equal(got, want):
                            ctx.violation(what="append of containers that are windows over the receiver's own buffer", cls=cls.__name__, dtype=str(np.dtype(dty)), buffer_length=total,
                                          receiver="[0:2]", sources=("independent 3 samples, " if with_extra else "") + ", ".join(f"[{windows[i][0]}:{windows[i][1]}]" for i in combo),
                                          observed=str(got.tolist())[:200], required=str(want.tolist())[:200])
                            return n
    return n


def run(ctx):
    world = H.World(ctx.rng)
    # the kinds of object accepted where an integer is (tier T12: Gen/Args.lean, Props/Args.lean) against the real converters
    from props import args_harness
    ctx.extra["int_arg_cases"] = args_harness.int_arg_cases(ctx)
    n_hist = 900 if ctx.quick else 5000
    for i in range(n_hist):
        kind = ["analog", "complex", "spectrum", "digital"][i % 4]
        H.gen_history(world, kind, ctx.rng.randint(1, 14 if ctx.quick else 40))
    # mostly-valid histories (the generic stream spends most calls on rejected arguments): buffer adoption / growth chains
    # such as 1-D base -> 2-D adoption -> growth on single-signal digital waveforms, borrowed buffers followed by appends
    wv = {"appa": 4, "appw": 1, "load": 6, "setcount": 1, "setcap": 4, "settiming": 0, "write": 2, "get": 2, "pickle": 1, "bad": 0}
    n_valid = 1200 if ctx.quick else 6000
    for i in range(n_valid):
        kind = ["digital", "analog", "digital", "spectrum", "digital", "complex"][i % 6]
        H.gen_history(world, kind, ctx.rng.randint(3, 10 if ctx.quick else 20), weights=wv, irregular_bias=0.05,
                      force_cols=1 if (kind == "digital" and i % 4 != 3) else None, valid_bias=0.85)
    oracle(ctx, world)
    for r in world.records:
        ctx.case(r["line"], nontrivial=not r.get("malformed"))
        ctx.count("op", r["line"].split()[0])
        ctx.count("outcome", "ok" if r["err"] is None else r["err"][1])
        if r["kind"]:
            ctx.count("class", r["kind"])
    ctx.extra["histories"] = n_hist + n_valid
    ctx.extra["borrowed_and_factory_calls"] = borrowed_and_factory_cases(ctx)
    ctx.extra["self_aliasing_appends"] = self_aliasing_appends(ctx)
    ctx.extra["self_aliasing_loads"] = self_aliasing_loads(ctx)
    ctx.extra["owned_after_factory"] = owned_after_factory(ctx)
    ctx.extra["zero_signal_digital"] = zero_signal_digital(ctx)
    ctx.extra["windows_over_one_buffer"] = windows_over_one_buffer(ctx)
    ctx.extra["shared_1d_growth"] = shared_1d_growth(ctx, lambda v: ctx.violation(**v))
    ctx.extra["reads_change_nothing"] = reads_change_nothing(ctx)
    ctx.extra["narrow_scalar_calls"] = H.narrow_scalar_cases(ctx, lambda info, obs, req: ctx.violation(what="a call with narrow NumPy integer scalars differs from the call with the same Python ints", observed=obs, required=req, **info))
    ctx.extra["model_lines_compared"] = H.compare_with_model(ctx, world)
    for line, exp in list(zip(world.lines, world.expect))[5:400:60]:
        ctx.sample({"request": line[:200], "response": exp[:200]})


def replay(doc):
    print(doc.get("input"))
    return 0
