"""C01 — Waveform sample buffers match a plain list model after every operation history."""
from __future__ import annotations

from props import wfm_harness as H

PID = "C01"
LEAN_MODULE = "NiVerif.Props.C01"
NAMESPACE = "Props.C01"
DRIVER = "drivers/Wfm.lean"
GEN_MODULES = []
EXTRA_LEAN_MODULES = ["NiVerif.Model.WfmProto"]
THEOREMS = ["stub"]
RULE = "seeded histories"
TRUSTED = []
ASSUMPTIONS = []


def run(ctx):
    world = H.World(ctx.rng)
    n_hist = 150 if ctx.quick else 4000
    for i in range(n_hist):
        kind = ["analog", "complex", "spectrum", "digital"][i % 4]
        H.gen_history(world, kind, ctx.rng.randint(1, 14))
    for r in world.records:
        ctx.case(r["line"])
        ctx.count("op", r["line"].split()[0])
        ctx.count("outcome", "ok" if r["err"] is None else r["err"][1])
    ctx.extra["model_lines"] = H.compare_with_model(ctx, world)
