"""C01 — Waveform sample buffers match a plain list model after every operation history."""
from __future__ import annotations

from props import wfm_harness as H

PID = "C01"
LEAN_MODULE = "NiVerif.Props.C01"
NAMESPACE = "Props.C01"
DRIVER = "drivers/Wfm.lean"
GEN_MODULES = []
EXTRA_LEAN_MODULES = ["NiVerif.Model.WfmProto"]
THEOREMS = ["view_shape", "ctorNew_spec", "ctorArr_spec", "setCapacity_spec", "setCount_spec", "setTiming_spec",
            "writeView_spec", "getData_spec", "increaseCapacity_spec", "appendArray_spec", "copyAll_spec",
            "appendWaveforms_spec", "loadData_spec", "inv_step", "inv_reachable", "view_refines",
            "Proofs.Wfm.view_append", "Proofs.Wfm.view_load", "Proofs.Wfm.view_grow", "Proofs.Wfm.view_write",
            "Proofs.Wfm.window_ok"]
RULE = ("seeded histories of 1-14 (thorough: up to 40) public calls per object on the four container classes x every "
        "supported raw dtype: construction from sizes or arrays, append of arrays / waveforms / sequences, load_data "
        "with and without copy and with sub-ranges, capacity / sample_count / timing assignment, writes through the data "
        "view, get_(raw_)data windows, pickling; owned, borrowed (view, strided) and caller-kept buffers, valid and "
        "invalid arguments interleaved; after every call the real object is compared with a plain Python list model "
        "(oracle) and with Model/Wfm.lean; non-trivial = distinct protocol line")
TRUSTED = ["hand model NiVerif/Model/Wfm.lean of the buffer machine (NumPy zeros/full, slice assignment, in-place "
           "resize keeping the prefix, ValueError on arrays that do not own their data) — compared with the real "
           "objects after every call of every generated history"]
ASSUMPTIONS = ["sample values are small integers representable in every dtype; dtypes are opaque tags",
               "dangling NumPy views after resize(refcheck=False) (memory safety) are not exhibited by any model"]


def parse_rows(tok):
    return [] if tok == "_" else [[int(v) for v in r.split(";")] for r in tok.split("|")]


def parse_arr(tok):
    d, nd, nc, ow, rows = tok.split(":")
    return parse_rows(rows)


def opt(tok):
    return None if tok == "-" else int(tok)


def snap_fields(s):
    f = dict(x.split("=", 1) for x in s.split(" "))
    return f


def oracle(ctx, world):
    """The property as a predicate over observations of the real objects: a plain list model per object."""
    model = {}
    for r in world.records:
        if r.get("malformed"):
            continue
        t = r["line"].split()
        op, name = t[0], t[1]
        ok = r["err"] is None
        if op == "wpickle":
            name = t[2]
        snap = r["after"].get(name)
        if snap is None:
            continue
        f = snap_fields(snap)
        rows = parse_rows(f["data"])
        start, count, cap, ncols = int(f["start"]), int(f["count"]), int(f["cap"]), int(f["ncols"])
        if not (0 <= start and start + count <= cap and len(rows) == count and all(len(x) == ncols for x in rows)):
            ctx.violation(what="invariant", line=r["line"][:200], observed=snap[:200],
                          required="0 <= start, start+count <= capacity, view has count rows of signal_count columns")
        if op == "wget":
            if ok:
                s, n = opt(t[2]) or 0, opt(t[3])
                exp = model[name][s:] if n is None else model[name][s:s + n]
                got = [[int(v) for v in x] for x in (r["res"].tolist() if r["res"].ndim == 2 else [[H.to_int(v)] for v in r["res"]])] \
                    if hasattr(r["res"], "ndim") else None
                got = parse_rows(world.expect[r["idx"]][3:]) if True else got
                if got != exp:
                    ctx.violation(what="get window", line=r["line"], observed=str(got)[:200], required=str(exp)[:200])
            elif r["err"][0] != "ValueError":
                ctx.violation(what="get window", line=r["line"], observed=r["err"], required="sub-list or ValueError")
            continue
        if not ok:
            if name in model and rows != model[name]:
                ctx.violation(what="rejected call changed the data", line=r["line"][:200], observed=str(rows)[:200],
                              required=str(model[name])[:200])
            continue
        if op == "wnew":
            fill = int(t[9])
            exp = [[fill] * ncols for _ in range(count)]
        elif op == "warr":
            a = parse_arr(t[3])
            s = opt(t[6]) or 0
            n = opt(t[7])
            exp = a[s:] if n is None else a[s:s + n]
        elif op == "wappa":
            exp = model[name] + parse_arr(t[2])
        elif op == "wappw":
            exp = list(model[name])
            for src in t[2].split(","):
                exp += model[src]
        elif op == "wload":
            a = parse_arr(t[2])
            s = opt(t[4]) or 0
            n = opt(t[5])
            exp = a[s:] if n is None else a[s:s + n]
        elif op == "wsetcount":
            v = int(t[2])
            old = model[name]
            if v <= len(old):
                exp = old[:v]
            else:
                exp = rows
                if rows[: len(old)] != old:
                    ctx.violation(what="sample_count growth lost samples", line=r["line"], observed=str(rows)[:200], required=str(old)[:200])
        elif op in ("wsetcap", "wsettiming"):
            exp = model[name]
        elif op == "wwrite":
            i = int(t[2])
            exp = [list(x) for x in model[name]]
            exp[i] = [int(v) for v in t[3].split(";")]
        elif op == "wpickle":
            exp = model[t[1]]
        else:
            continue
        if rows != exp:
            ctx.violation(what="view differs from the list model", line=r["line"][:300], observed=str(rows)[:300], required=str(exp)[:300])
        model[name] = rows


def run(ctx):
    world = H.World(ctx.rng)
    n_hist = 160 if ctx.quick else 5000
    for i in range(n_hist):
        kind = ["analog", "complex", "spectrum", "digital"][i % 4]
        H.gen_history(world, kind, ctx.rng.randint(1, 14 if ctx.quick else 40))
    # mostly-valid histories (the generic stream spends most calls on rejected arguments): buffer adoption / growth chains
    # such as 1-D base -> 2-D adoption -> growth on single-signal digital waveforms, borrowed buffers followed by appends
    wv = {"appa": 4, "appw": 1, "load": 6, "setcount": 1, "setcap": 4, "settiming": 0, "write": 2, "get": 2, "pickle": 1, "bad": 0}
    n_valid = 240 if ctx.quick else 6000
    for i in range(n_valid):
        kind = ["digital", "analog", "digital", "spectrum", "digital", "complex"][i % 6]
        H.gen_history(world, kind, ctx.rng.randint(3, 10 if ctx.quick else 20), weights=wv, irregular_bias=0.05,
                      force_cols=1 if (kind == "digital" and i % 4 != 3) else None, valid_bias=0.85)
    oracle(ctx, world)
    for r in world.records:
        ctx.case(r["line"], nontrivial=not r.get("malformed"))
        ctx.count("op", r["line"].split()[0])
        ctx.count("outcome", "ok" if r["err"] is None else r["err"][1])
        if r["kind"]:
            ctx.count("class", r["kind"])
    ctx.extra["histories"] = n_hist + n_valid
    ctx.extra["model_lines_compared"] = H.compare_with_model(ctx, world)
    for line, exp in list(zip(world.lines, world.expect))[5:400:60]:
        ctx.sample({"request": line[:200], "response": exp[:200]})


def replay(doc):
    print(doc.get("input"))
    return 0
