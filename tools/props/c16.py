"""C16 — DigitalWaveform.test reports exactly the incompatible (sample, signal) positions."""
from __future__ import annotations

import itertools

from props.common import outcome, show, norm_model, render, translation_validation

PID = "C16"
LEAN_MODULE = "NiVerif.Props.C16"
NAMESPACE = "Props.C16"
DRIVER = "drivers/C16.lean"
GEN_MODULES = ["DigitalState", "Geometry", "Args", "TestLoops"]
EXTRA_LEAN_MODULES = ["NiVerif.Props.Args"]
THEOREMS = ["table_is_ni", "table_symm", "table_refl", "x_compatible_with_all", "enum_values", "state_test_table",
            "state_test_spec", "bad_state_ValueError", "colStep_spec", "colLoop_spec", "specFailures_succ",
            "sampleLoop_spec", "failures_exact", "default_count", "success_iff_nil", "window_errors",
            "window_always_refused", "char_roundtrip", "gen_test_window_eq_model", "gen_test_window_inside",
            "Props.Args.gen_arg_to_int_spec", "Props.Args.gen_arg_to_int_plain", "Props.Args.gen_arg_to_uint_eq_prelude", "Props.Args.gen_arg_to_uint_plain", "Props.Args.gen_arg_to_uint_kind_independent",
            "colBody_eq", "colLoop_acc", "sampleLoop_acc", "gen_test_loops_eq_model", "gen_test_eq_generated"]
RULE = ("all 64 state pairs and out-of-range values on DigitalState.test; all waveform pairs over the 8 states for "
        "shapes 1x1, 1x2 and 2x1 (samples x signals) exhaustively, a seeded sample of 2x2, seeded larger waveforms "
        "(also bool dtype and values 8..255) with every relation of the window to both waveforms and differing "
        "signal counts; each compared with the property's comprehension (oracle) and with Model/DigitalTest.lean; "
        "non-trivial = distinct request with at least one non-zero state")
TRUSTED = ["hand model NiVerif/Model/DigitalTest.lean of the argument checks and the double loop (the state table, "
           "the enum and DigitalState.test are regenerated from _state.py each run)",
           "the NI compatibility table is the specification constant niTable in Props/C16.lean"]
ASSUMPTIONS = ["waveform data are observed through .data (C01 covers the buffer geometry)"]

# NI's table, written from the state semantics (not copied from the module under test):
# drive 0/1/Z; compare L(low) H(high) X(don't care) T(off) V(valid level)
ACCEPTS = {0: {0, 3, 5, 7}, 1: {1, 4, 5, 7}, 2: {2, 5, 6}, 3: {0, 3, 5}, 4: {1, 4, 5}, 5: set(range(8)),
           6: {2, 5, 6}, 7: {0, 1, 5, 7}}


def compat(x, y):
    return y in ACCEPTS[x]


def rows_text(rows, nsig):
    if not rows:
        return "_"
    return "|".join(";".join(str(int(v)) for v in r) for r in rows)


def expected(a, e, na, ne, s, es, n):
    """The property as an executable predicate: (kind, value)."""
    s0 = 0 if s is None else s
    es0 = 0 if es is None else es
    if s0 < 0 or es0 < 0:
        return ("err", "ValueError")
    n0 = (len(a) - s0) if n is None else n
    if n0 < 0 or na != ne or s0 + n0 > len(a) or es0 + n0 > len(e):
        return ("err", "ValueError")
    out = []
    for k in range(n0):
        for c in range(na):
            x, y = int(a[s0 + k][c]), int(e[es0 + k][c])
            if not (0 <= x <= 7 and 0 <= y <= 7):
                return ("err", "ValueError")
            if not compat(x, y):
                out.append((s0 + k, es0 + k, na - 1 - c, x, y))
    return ("ok", out)


def run_case(ctx, W, np, a, e, na, ne, s, es, n, dtype, reqs, pad=None, dtype_e=None):
    dtype_e = dtype_e or dtype
    def build(rows, ncol, k, dtype):
        arr = np.array(rows, dtype=dtype).reshape(len(rows), ncol)
        if not k:
            return W.from_lines(arr, signal_count=ncol)
        # the samples sit inside a larger buffer: non-zero start index, slack behind the window (filled with other states)
        filler = (np.arange((k[0] + k[1]) * ncol).reshape(k[0] + k[1], ncol) % (2 if dtype is np.bool_ else 8)).astype(dtype)
        buf = np.concatenate([filler[:k[0]], arr, filler[k[0]:]])
        return W(data=buf, start_index=k[0], sample_count=len(rows))
    wa = build(a, na, pad and pad[0], dtype)
    we = build(e, ne, pad and pad[1], dtype_e)
    kw = {}
    if s is not None: kw["start_sample"] = s
    if es is not None: kw["expected_start_sample"] = es
    if n is not None: kw["sample_count"] = n
    o = outcome(lambda: wa.test(we, **kw))
    want = expected(a, e, na, ne, s, es, n)
    if o[0] == "ok":
        r = o[1]
        got = ("ok", [(f.sample_index, f.expected_sample_index, f.signal_index, int(f.actual_state), int(f.expected_state))
                      for f in r.failures])
        if r.success is not (len(r.failures) == 0):
            ctx.violation(what="success", observed=r.success, required=len(r.failures) == 0)
    else:
        got = ("err", o[1])
    if got != want:
        ctx.violation(what="test", actual=a, expected=e, nsig=(na, ne), window=(s, es, n), dtype=f"{np.dtype(dtype)} vs {np.dtype(dtype_e)}",
                      observed=str(got)[:300], required=str(want)[:300])
    f = lambda x: "-" if x is None else str(x)
    text = ("ok " + "[" + ",".join("(%d,%d,%d,%d,%d)" % t for t in got[1]) + "]") if got[0] == "ok" else "err " + got[1]
    reqs.append((f"dtest {na} {rows_text(a, na)} {ne} {rows_text(e, ne)} {f(s)} {f(es)} {f(n)}", text))
    ctx.case(("t", str(a), str(e), s, es, n), nontrivial=any(any(r) for r in a + e))
    ctx.count("outcome", "ok-fail" if got[0] == "ok" and got[1] else ("ok-pass" if got[0] == "ok" else got[1]))


def run(ctx):
    import numpy as np
    from nitypes.waveform import DigitalState, DigitalWaveform
    rng = ctx.rng
    # the kinds of object accepted where an integer is (tier T12: Gen/Args.lean, Props/Args.lean) against the real converters
    from props import args_harness
    ctx.extra["int_arg_cases"] = args_harness.int_arg_cases(ctx)
    # ---- DigitalState.test on all 64 pairs + out-of-range values; translation validation -----------------
    cases = []
    for x, y in itertools.product(list(range(-2, 11)) + [255, 256], repeat=2):
        o = outcome(DigitalState.test, x, y)
        if 0 <= x <= 7 and 0 <= y <= 7:
            if o != ("ok", not compat(x, y)):
                ctx.violation(what="DigitalState.test", pair=(x, y), observed=show(o), required=not compat(x, y))
            if compat(x, y) != compat(y, x) or not compat(x, x) or not compat(5, y):
                ctx.violation(what="table", pair=(x, y), observed="asymmetric / irreflexive / X", required="NI table")
        elif o[:2] != ("err", "ValueError"):
            ctx.violation(what="DigitalState.test", pair=(x, y), observed=show(o), required="ValueError")
        cases.append(("DigitalState.test", [x, y], (lambda x=x, y=y: DigitalState.test(x, y)), True))
        ctx.case(("pair", x, y))
    ctx.extra["translation_validation_cases"] = translation_validation(ctx, cases)
    chars = "01ZLHXTV"
    for i, c in enumerate(chars):
        if DigitalState.to_char(DigitalState(i)) != c or DigitalState.from_char(c) != i or DigitalState(i).char != c:
            ctx.violation(what="to_char/from_char", state=i, observed=DigitalState.to_char(DigitalState(i)), required=c)
    # (only single characters outside the alphabet: the property says nothing about '' or multi-character
    #  strings, for which str.index() finds a substring position)
    for bad in ("2", "x", "z", "l"):
        o = outcome(DigitalState.from_char, bad)
        if o[0] != "err":
            ctx.violation(what="from_char", char=bad, observed=show(o), required="KeyError")
    reqs = [(f"dchar to {i}", "ok s:" + chars[i]) for i in range(8)] + [(f"dchar from {c}", f"ok {i}") for i, c in enumerate(chars)]
    reqs += [("dchar to 8", "err KeyError"), ("dchar from Q", "err KeyError")]
    # ---- exhaustive small shapes -------------------------------------------------------------------------
    W = DigitalWaveform
    for x, y in itertools.product(range(8), repeat=2):
        run_case(ctx, W, np, [[x]], [[y]], 1, 1, None, None, None, np.uint8, reqs)
    pairs2 = list(itertools.product(range(8), repeat=2))
    sel = pairs2 if not ctx.quick else rng.sample(pairs2, 24)
    for p in sel:
        for q in (pairs2 if not ctx.quick else rng.sample(pairs2, 24)):
            run_case(ctx, W, np, [list(p)], [list(q)], 2, 2, None, None, None, np.uint8, reqs)          # 1 sample x 2 signals
            run_case(ctx, W, np, [[p[0]], [p[1]]], [[q[0]], [q[1]]], 1, 1, None, None, None, np.uint8, reqs)  # 2 x 1
    for _ in range(300 if ctx.quick else 100000):
        a = [[rng.randrange(8), rng.randrange(8)] for _ in range(2)]
        e = [[rng.randrange(8), rng.randrange(8)] for _ in range(2)]
        run_case(ctx, W, np, a, e, 2, 2, None, None, None, np.uint8, reqs)
    # ---- every state of one state dtype against every state of another (bool holds 0 / 1, uint8 and int8 all eight states): the table
    #      decides, whatever the two dtypes are ------------------------------------------------------------------------------------------
    for dt_a in (np.bool_, np.uint8, np.int8):
        for dt_e in (np.bool_, np.uint8, np.int8):
            for x in range(2 if dt_a is np.bool_ else 8):
                for y in range(2 if dt_e is np.bool_ else 8):
                    run_case(ctx, W, np, [[x]], [[y]], 1, 1, None, None, None, dt_a, reqs, dtype_e=dt_e)
            # and side by side in one window (a vectorised comparison sees them together)
            xs = list(range(2 if dt_a is np.bool_ else 8)); ys = list(range(2 if dt_e is np.bool_ else 8))
            pairs = [(x, y) for x in xs for y in ys]
            run_case(ctx, W, np, [[p[0]] for p in pairs], [[p[1]] for p in pairs], 1, 1, None, None, None, dt_a, reqs, dtype_e=dt_e)
            ctx.count("dtypes", f"all states {np.dtype(dt_a)} vs {np.dtype(dt_e)}")
    # ---- the result of test() describes the waveforms as they were WHEN they were tested: the same capture buffer refilled (load_data,
    #      writes through .data) and the expected pattern edited after the call and before the failures are looked at -------------------
    for case_ in range(40 if ctx.quick else 600):
        nsig = rng.randint(1, 3); ns = rng.randint(1, 5)
        a0 = [[rng.randrange(8) for _ in range(nsig)] for _ in range(ns)]
        e0 = [[rng.randrange(8) for _ in range(nsig)] for _ in range(ns)]
        wa, we = W.from_lines(np.array(a0, np.uint8)), W.from_lines(np.array(e0, np.uint8))
        want = expected(a0, e0, nsig, nsig, None, None, None)
        r = outcome(lambda: wa.test(we))
        how = rng.choice(["load_data", "write through data", "edit expected", "both"])
        a1 = [[rng.randrange(8) for _ in range(nsig)] for _ in range(ns)]
        if how in ("load_data", "both"): wa.load_data(np.array(a1, np.uint8))
        if how == "write through data": wa.data[:] = np.array(a1, np.uint8)
        if how in ("edit expected", "both"): we.data[:] = np.array(a1, np.uint8)[::-1]
        ctx.case(("result-after-mutation", case_, how))
        if r[0] != "ok":
            continue
        look = rng.choice(["list", "len-then-index", "iterate", "success-then-list"])
        fo = outcome(lambda: (r[1].success, [(int(f.sample_index), int(f.expected_sample_index), int(f.signal_index), int(f.actual_state), int(f.expected_state)) for f in
                                             (list(r[1].failures) if look != "len-then-index" else [r[1].failures[k] for k in range(len(r[1].failures))])]))
        got = ("ok", fo[1][1]) if fo[0] == "ok" else ("err", fo[1])
        if got != want or (fo[0] == "ok" and fo[1][0] != (not want[1])):
            ctx.violation(what="the failures of an earlier test() changed when a waveform was modified afterwards", mutation=how, looked_at_by=look, actual=a0, expected=e0,
                          observed=str(got)[:300], required=str(want)[:300])
            break
    # ---- larger waveforms, windows, mismatches, other dtypes ----------------------------------------------
    for _ in range(500 if ctx.quick else 20000):
        na = rng.randint(1, 5)
        ne = na if rng.random() < 0.9 else rng.randint(1, 5)
        la, le = rng.randint(0, 6), rng.randint(0, 6)
        dtype = rng.choice([np.uint8, np.uint8, np.int8, np.bool_])
        # the two waveforms need not have the same state dtype (bool against uint8 / int8 and so on)
        dtype_e = dtype if rng.random() < 0.6 else rng.choice([np.uint8, np.int8, np.bool_])
        hi = 2 if dtype is np.bool_ else (8 if rng.random() < 0.9 else 12)
        hie = 2 if dtype_e is np.bool_ else (8 if rng.random() < 0.9 else 12)
        a = [[rng.randrange(hi) for _ in range(na)] for _ in range(la)]
        e = [[rng.randrange(hie) for _ in range(ne)] for _ in range(le)]
        ctx.count("dtypes", f"{np.dtype(dtype)} vs {np.dtype(dtype_e)}")
        s = rng.choice([None, 0, 1, 2, la, la + 1, -1])
        es = rng.choice([None, 0, 1, 2, le, le + 1, -1])
        n = rng.choice([None, 0, 1, 2, 3, la, le, max(0, la - (s or 0)), max(0, le - (es or 0)), -1])
        pad = None if rng.random() < 0.5 else ((rng.randint(0, 3), rng.randint(0, 2)), (rng.randint(0, 3), rng.randint(0, 2)))
        run_case(ctx, W, np, a, e, na, ne, s, es, n, dtype, reqs, pad=pad, dtype_e=dtype_e)
    # ---- very long windows (whatever an implementation does for large comparisons: blocks, chunks): more than 2^20 compared cells, the
    # two start samples different, a few genuine differences far into the window; the expectation is computed with NumPy from the table
    table = np.zeros((8, 8), bool)
    for x_ in range(8):
        for y_ in range(8):
            table[x_, y_] = not compat(x_, y_)
    for nsig_, nsamp_, off_ in (((16, 65600, 5),) if ctx.quick else ((16, 65600, 5), (1, (1 << 20) + 300, 7), (8, 131200, 0), (3, 350000, 11))):
        gen2 = np.random.default_rng(ctx.seed + nsig_)
        exp_arr = gen2.integers(0, 2, (nsamp_ + off_, nsig_)).astype(np.uint8)
        act_arr = exp_arr[off_:off_ + nsamp_].copy()
        for r_ in (3, nsamp_ // 2, nsamp_ - 37, nsamp_ - 1, (1 << 20) // nsig_ + 7 if (1 << 20) // nsig_ + 7 < nsamp_ else 0):
            c_ = int(gen2.integers(0, nsig_))
            act_arr[r_, c_] = 1 - act_arr[r_, c_]
        exp_arr[off_ + nsamp_ // 3, 0] = 5 if act_arr[nsamp_ // 3, 0] == 0 else 6      # an expected state that accepts the actual one: no failure
        wa2, we2 = W.from_lines(act_arr), W.from_lines(exp_arr)
        o = outcome(lambda: wa2.test(we2, start_sample=0, expected_start_sample=off_, sample_count=nsamp_))
        fails = np.argwhere(table[act_arr, exp_arr[off_:off_ + nsamp_]])
        want_f = [(int(r_), int(r_) + off_, nsig_ - 1 - int(c_), int(act_arr[r_, c_]), int(exp_arr[r_ + off_, c_])) for r_, c_ in fails]
        ctx.case(("long-window", nsig_, nsamp_, off_))
        got_f = None if o[0] != "ok" else [(int(f.sample_index), int(f.expected_sample_index), int(f.signal_index), int(f.actual_state), int(f.expected_state)) for f in o[1].failures]
        if got_f != want_f:
            ctx.violation(what="test over a window of more than 2^20 cells", signals=nsig_, samples=nsamp_, expected_start_sample=off_,
                          observed=(show(o)[:120] if got_f is None else f"{len(got_f)} failures, first {got_f[:3]}"), required=f"{len(want_f)} failures, first {want_f[:3]}")
    # ---- windows given as narrow NumPy integer scalars on waveforms longer than those types can count -----------
    big_a = [[(i * 7 + 3) % 8] for i in range(300)]
    big_e = [[(i * 5 + 1) % 8] for i in range(300)]
    wa_big = W.from_lines(np.array(big_a, np.uint8)); we_big = W.from_lines(np.array(big_e, np.uint8))
    for s0, es0, n0 in ((5, 250, 10), (250, 5, 10), (200, 200, 100), (200, 0, 50), (0, 255, 45), (120, 127, 20), (255, 255, 1), (100, 100, 250)):
        for T in (np.uint8, np.int8, np.int16, np.uint16, np.int64):
            info = np.iinfo(T)
            if not all(info.min <= v <= info.max for v in (s0, es0, n0)):
                continue
            o = outcome(lambda: wa_big.test(we_big, start_sample=T(s0), expected_start_sample=T(es0), sample_count=T(n0)))
            want = expected(big_a, big_e, 1, 1, s0, es0, n0)
            if o[0] == "ok":
                got = ("ok", [(int(f.sample_index), int(f.expected_sample_index), int(f.signal_index), int(f.actual_state), int(f.expected_state)) for f in o[1].failures])
            else:
                got = ("err", o[1])
            ctx.case(("npint-window", s0, es0, n0, T.__name__))
            if got != want:
                ctx.violation(what="test window given as NumPy integer scalars", window=(repr(T(s0)), repr(T(es0)), repr(T(n0))), observed=str(got)[:300],
                              required=str(want)[:300])
                break
    # ---- windows given as other accepted integer kinds (bool, int subclass, __index__ object): same answer as for the plain ints ------
    import enum

    class _E(enum.IntEnum):
        ZERO = 0
        ONE = 1
        TWO = 2

    class _Ix:
        def __init__(self, v): self.v = v
        def __index__(self): return self.v
        def __repr__(self): return f"Ix({self.v})"
    kinds = (("bool", lambda v: bool(v) if v in (0, 1) else None), ("IntEnum", lambda v: _E(v) if v in (0, 1, 2) else None), ("__index__", _Ix))
    for s0, es0, n0 in ((1, 0, 1), (0, 1, 1), (1, 1, 1), (1, 0, 2), (0, 1, 2), (1, 1, 0), (2, 1, 1), (1, 2, 2), (0, 0, 1)):
        want = expected(big_a, big_e, 1, 1, s0, es0, n0)
        for kname, K in kinds:
            for which in ("start", "expected_start", "count", "all"):
                vals = [K(v) if which in (w_, "all") else v for v, w_ in ((s0, "start"), (es0, "expected_start"), (n0, "count"))]
                if any(v is None for v in vals):
                    continue
                o = outcome(lambda: wa_big.test(we_big, start_sample=vals[0], expected_start_sample=vals[1], sample_count=vals[2]))
                got = ("ok", [(int(f.sample_index), int(f.expected_sample_index), int(f.signal_index), int(f.actual_state), int(f.expected_state)) for f in o[1].failures]) if o[0] == "ok" else ("err", o[1])
                ctx.case(("intlike-window", s0, es0, n0, kname, which))
                ctx.count("window", "integer-like " + kname)
                if got != want:
                    ctx.violation(what="test window given as an accepted integer kind differs from the same window given as plain ints", window=[repr(v) for v in vals],
                                  kind=kname, observed=str(got)[:300], required=str(want)[:300])
    # ---- long windows (tens of thousands of samples, not multiples of anything): every failure is reported at its own sample ------
    for case in range(3 if ctx.quick else 20):
        nsamp = rng.choice([70000, 65537, 131073, 150001] if not ctx.quick else [70000, 65537 + rng.randint(0, 3000)])
        nsig = rng.choice([1, 2])
        gen = np.random.default_rng(ctx.seed * 77 + case)
        a_arr = gen.integers(0, 2, (nsamp, nsig)).astype(np.uint8)
        e_arr = a_arr.copy()
        pos = sorted(set(int(x) for x in gen.integers(0, nsamp, 12)) | {nsamp - 1, nsamp // 2, 65535, 65536})
        for p_ in pos:
            e_arr[p_, p_ % nsig] = 1 - a_arr[p_, p_ % nsig]          # FORCE_DOWN against FORCE_UP: incompatible
        s0 = rng.choice([0, 0, 3])
        wa_l, we_l = W.from_lines(a_arr), W.from_lines(e_arr)
        o = outcome(lambda: wa_l.test(we_l, start_sample=s0, expected_start_sample=s0))
        want = [(p_, p_, nsig - 1 - (p_ % nsig), int(a_arr[p_, p_ % nsig]), int(e_arr[p_, p_ % nsig])) for p_ in pos if p_ >= s0]
        got = [(int(f.sample_index), int(f.expected_sample_index), int(f.signal_index), int(f.actual_state), int(f.expected_state)) for f in o[1].failures] if o[0] == "ok" else None
        ctx.case(("long-window", nsamp, nsig, s0))
        ctx.count("window", "long")
        if got is None or sorted(got) != sorted(want):
            ctx.violation(what="test over a long window", samples=nsamp, signals=nsig, start=s0, observed=(show(o)[:200] if got is None else str(sorted(got))[:300]),
                          required=str(sorted(want))[:300])
    # ---- values that are not digital states, in particular the SAME invalid value on both sides ----------------
    for _ in range(150 if ctx.quick else 5000):
        na = rng.randint(1, 3)
        la = rng.randint(1, 5)
        a = [[rng.randrange(8) for _ in range(na)] for _ in range(la)]
        for _k in range(rng.randint(1, 2)):
            a[rng.randrange(la)][rng.randrange(na)] = rng.choice([8, 9, 200, 255])
        e = [list(r) for r in a]                      # a copy of itself: every compared position holds equal values
        if rng.random() < 0.5:
            i, j = rng.randrange(la), rng.randrange(na)
            if e[i][j] < 8:
                e[i][j] = rng.randrange(8)            # and possibly one ordinary difference elsewhere
        s = rng.choice([None, None, 0, 1])
        n = rng.choice([None, None, 1, la])
        run_case(ctx, W, np, a, e, na, na, s, s, n, np.uint8, reqs)
    # ---- signed state dtype: negative samples are not digital states either (every value in -128..-1, on either side or both, inside or
    # outside the compared window) - judged by the oracle alone (the line protocol carries unsigned states)
    for v in list(range(-9, 0)) + [-128, -127, -64, -10]:
        for side in ("actual", "expected", "both"):
            for other in (0, 1, 2, 4, 7):
                for pos in (0, 2):
                    a = [[0, 1], [1, 0], [other, 3]]
                    e = [[0, 1], [1, 0], [other, 3]]
                    if side in ("actual", "both"): a[pos][0] = v
                    if side in ("expected", "both"): e[pos][0] = v if side == "both" else v
                    for (s_, n_) in ((None, None), (0, 2), (2, 1), (1, 1)):
                        wa, we = DigitalWaveform.from_lines(np.array(a, np.int8)), DigitalWaveform.from_lines(np.array(e, np.int8 if side != "actual" else np.uint8))
                        kw = {} if s_ is None else {"start_sample": s_, "expected_start_sample": s_, "sample_count": n_}
                        o = outcome(lambda: wa.test(we, **kw))
                        want = expected(a, e, 2, 2, s_, s_, n_)
                        got = ("err", o[1]) if o[0] != "ok" else ("ok", [(f.sample_index, f.expected_sample_index, f.signal_index, int(f.actual_state), int(f.expected_state)) for f in o[1].failures])
                        ctx.case(("negative-state", v, side, other, pos, s_, n_))
                        if got != want:
                            ctx.violation(what="test with a negative sample (signed state dtype)", actual=a, expected=e, window=(s_, n_), observed=str(got)[:200], required=str(want)[:200])
                            break
                    else:
                        continue
                    break
                else:
                    continue
                break
            else:
                continue
            break
        else:
            continue
        break
    res = ctx.model([q for q, _ in reqs])
    if res is not None:
        for (q, want), got in zip(reqs, res):
            if norm_model(got) != want:
                ctx.mismatch(stream="digital-test", request=q[:300], model_says=got[:300], code_says=want[:300])
    ctx.extra["model_comparisons"] = len(reqs)
    for q, w in reqs[100:: max(1, len(reqs) // 8)][:8]:
        ctx.sample({"request": q, "response": w})


def replay(doc):
    print(doc.get("input"))
    return 0
