"""C14 — Calendar fields, normalized fields and text agree with the tick value."""
from __future__ import annotations

import datetime as dt
import re
from fractions import Fraction

from props.common import (I128_MAX, I128_MIN, T64, edge_ticks, structured_fractions, outcome, rand_ticks, show, norm_model, render,
                          translation_validation)

PID = "C14"
LEAN_MODULE = "NiVerif.Props.C14"
NAMESPACE = "Props.C14"
DRIVER = "drivers/C14.lean"
GEN_MODULES = ["TimeValueTuple", "TimeDelta", "DateTime"]
THEOREMS = ["td_fields_ranges", "td_fields_sum", "td_str_value", "td_str_eq", "dt_instant", "dt_out_of_range",
            "dt_subday", "dt_fields_calendar", "dt_fields_rebuild", "repr_roundtrip", "dt_fields_refused",
            "Proofs.Calendar.ord2ymd_spec", "Proofs.Calendar.monthDay_table", "Proofs.Calendar.dby_succ",
            "Proofs.Calendar.dec31"]
RULE = ("DateTime ticks at every kind of calendar boundary (Feb 28/29, Mar 1, Dec 31/Jan 1 of sampled and century "
        "years, min/max), fractions within a few ticks of a whole second, negatives, plus seeded random ticks; "
        "TimeDelta ticks from the 128-bit edge lattice; fields, repr/eval, str and reconstruction on the real code "
        "against an independent civil-from-days algorithm and exact Fractions, and against the Lean models; "
        "thorough: all 3 652 059 ordinals of CPython's calendar against Model/Calendar.lean")
TRUSTED = [
    "hand model NiVerif/Model/Calendar.lean of CPython's _ord2ymd/_ymd2ord (compared with date.fromordinal / "
    "toordinal: sampled in quick, all 3 652 059 ordinals in thorough) and Model/DtFields.lean (hightime's "
    "ordinal-based datetime arithmetic)",
    "specification Model/TdText.lean of the timedelta-style text (compared with str(datetime.timedelta))",
]
ASSUMPTIONS = ["str(DateTime) delegates to hightime/CPython __str__: checked by the oracle (parsed text vs fields) only"]

DAY = 86400
EPOCH_DAYS = 695055
DT_MIN = -(EPOCH_DAYS * DAY * T64)
DT_MAX = (3652059 - EPOCH_DAYS) * DAY * T64 - 1


def civil_from_days(z: int):
    """Howard Hinnant's algorithm; z = days since 1970-01-01 (independent of CPython's datetime)."""
    z += 719468
    era = (z if z >= 0 else z - 146096) // 146097
    doe = z - era * 146097
    yoe = (doe - doe // 1460 + doe // 36524 - doe // 146096) // 365
    y = yoe + era * 400
    doy = doe - (365 * yoe + yoe // 4 - yoe // 100)
    mp = (5 * doy + 2) // 153
    d = doy - (153 * mp + 2) // 5 + 1
    m = mp + 3 if mp < 10 else mp - 9
    return (y + (1 if m <= 2 else 0), m, d)


def expected_fields(t: int):
    ys = t * 10**24 // T64          # yoctoseconds after 1904-01-01, rounded down
    days, rem = divmod(ys, DAY * 10**24)
    y, m, d = civil_from_days(days + EPOCH_DAYS - 719162)   # 1970-01-01 is ordinal 719163
    secs, sub = divmod(rem, 10**24)
    return (y, m, d, secs // 3600, secs // 60 % 60, secs % 60, sub // 10**18, sub // 10**9 % 10**9, sub % 10**9)


STR_RE = re.compile(r"^(\d{4})-(\d\d)-(\d\d) (\d\d):(\d\d):(\d\d)(?:\.(\d+))?\+00:00$")
TD_RE = re.compile(r"^(?:(-?\d+) days?, )?(\d+):(\d\d):(\d\d)(?:\.(\d{1,18}))?$")


def check_datetime(ctx, t: int, bt):
    DT = bt.DateTime
    x = DT.from_ticks(t)
    want = expected_fields(t)
    o = outcome(lambda: (x.year, x.month, x.day, x.hour, x.minute, x.second, x.microsecond, x.femtosecond, x.yoctosecond))
    if o != ("ok", want):
        ctx.violation(what="fields", ticks=t, observed=show(o), required=str(want))
        return
    if x.tzinfo != dt.timezone.utc:
        ctx.violation(what="tzinfo", ticks=t, observed=repr(x.tzinfo), required="UTC")
    r = outcome(lambda: DT(*want, tzinfo=dt.timezone.utc).ticks)
    if r != ("ok", t):
        ctx.violation(what="rebuild from fields", ticks=t, observed=show(r), required=t)
    rp = repr(x)
    ev = outcome(lambda: eval(rp, {"nitypes": __import__("nitypes"), "datetime": dt}).ticks)
    if ev != ("ok", t):
        ctx.violation(what="eval(repr)", ticks=t, observed=f"{rp} -> {show(ev)}", required=t)
    s = str(x)
    m = STR_RE.match(s)
    if not m:
        ctx.violation(what="str", ticks=t, observed=s, required="YYYY-MM-DD HH:MM:SS[.f]+00:00")
    else:
        frac = (m.group(7) or "").ljust(24, "0")
        got = tuple(int(g) for g in m.groups()[:6]) + (int(frac[:6]), int(frac[6:15]), int(frac[15:24]))
        if got != want or len(m.group(7) or "") > 24:
            ctx.violation(what="str fields", ticks=t, observed=s, required=str(want))
    # every way of building the same instant shows the same fields, text and repr: the public constructor with calendar
    # fields, with only a microsecond (the tick value is then the rounded one), from datetime / hightime objects, through
    # nitypes.time.convert_datetime, from a tick count given as a NumPy integer
    from nitypes.time import convert_datetime
    import numpy as np
    npt = [T for T in (np.int64, np.uint64) if np.iinfo(T).min <= t <= np.iinfo(T).max]
    import hightime as ht
    builders = [(f"from_ticks({T.__name__})", (lambda T=T: DT.from_ticks(T(t)))) for T in npt]
    builders += [("convert_datetime(datetime)", lambda: convert_datetime(DT, dt.datetime(*want[:7], tzinfo=dt.timezone.utc))),
                 ("convert_datetime(hightime)", lambda: convert_datetime(DT, ht.datetime(*want[:7], femtosecond=want[7], yoctosecond=want[8], tzinfo=dt.timezone.utc))),
                 ("fields", lambda: DT(*want, tzinfo=dt.timezone.utc)),
                ("microsecond only", lambda: DT(*want[:7], tzinfo=dt.timezone.utc)),
                ("hightime", lambda: DT(ht.datetime(*want[:7], femtosecond=want[7], yoctosecond=want[8], tzinfo=dt.timezone.utc))),
                ("datetime", lambda: DT(dt.datetime(*want[:7], tzinfo=dt.timezone.utc)))]
    # sources that carry only microseconds (most of which are NOT a whole number of ticks: the DateTime is the nearest tick, and shows
    # that tick's fields, not the source's), through every conversion entry point
    from nitypes.waveform import Timing
    us_only_ht = ht.datetime(*want[:7], tzinfo=dt.timezone.utc)
    us_only_dt = dt.datetime(*want[:7], tzinfo=dt.timezone.utc)
    if t % 4 == 0:
      builders += [("convert_datetime(hightime, microseconds only)", lambda: convert_datetime(DT, us_only_ht)),
                 ("convert_datetime(datetime, microseconds only)", lambda: convert_datetime(DT, us_only_dt)),
                 ("Timing.to_bintime(hightime timestamp)", lambda: Timing.create_with_no_interval(us_only_ht).to_bintime().timestamp),
                 ("Timing.to_bintime(datetime timestamps)", lambda: Timing.create_with_irregular_interval([us_only_dt]).to_bintime().get_timestamps(0, 1)[0]),
                 ("DateTime(hightime, microseconds only)", lambda: DT(us_only_ht))]
    for label, mk in builders:
        o2 = outcome(mk)
        if o2[0] != "ok":
            ctx.violation(what="constructor refused valid fields", how=label, ticks=t, observed=show(o2), required="a DateTime")
            continue
        y = o2[1]
        yt = outcome(lambda: int(y.ticks))
        if yt[0] != "ok" or type(y.ticks) is not int:
            ctx.violation(what="a DateTime built by the constructor does not hold a Python int tick count", how=label, ticks=t,
                          observed=f"{type(y.ticks).__name__} {show(yt)}", required="int")
            continue
        canon = DT.from_ticks(yt[1])
        oo = outcome(lambda: (str(y), repr(y), (y.year, y.month, y.day, y.hour, y.minute, y.second, y.microsecond, y.femtosecond, y.yoctosecond)))
        obs = oo[1] if oo[0] == "ok" else show(oo)
        req = (str(canon), repr(canon), expected_fields(yt[1]))
        if obs != req:
            ctx.violation(what="a DateTime built by the constructor shows other text / fields than its tick value has", how=label, ticks=y.ticks,
                          observed=str(obs)[:300], required=str(req)[:300])


def td_text_value(s: str):
    m = TD_RE.match(s)
    if not m:
        return None
    days = int(m.group(1) or 0)
    h, mi, sec = int(m.group(2)), int(m.group(3)), int(m.group(4))
    frac = m.group(5) or ""
    if (frac.endswith("0")) or h >= 24 or mi >= 60 or sec >= 60:
        return None
    if m.group(1) is not None and ((abs(days) == 1) != (" day, " in s) or days == 0):
        return None
    return ((days * 24 + h) * 3600 + mi * 60 + sec) * 10**18 + int(frac.ljust(18, "0") or 0)


def check_timedelta(ctx, t: int, bt):
    import numpy as np
    x = bt.TimeDelta.from_ticks(t)
    f = (x.days, x.seconds, x.microseconds, x.femtoseconds, x.yoctoseconds)
    # the same tick count given as a NumPy integer scalar shows the same fields and text
    for T in (np.int64, np.uint64, np.int32):
        if np.iinfo(T).min <= t <= np.iinfo(T).max:
            o = outcome(lambda: (lambda y: ((y.days, y.seconds, y.microseconds, y.femtoseconds, y.yoctoseconds), str(y)))(bt.TimeDelta.from_ticks(T(t))))
            if o != ("ok", (f, str(x))):
                ctx.violation(what="timedelta fields of a tick count given as a NumPy integer", ticks=t, type=T.__name__, observed=show(o)[:200],
                              required=str((f, str(x)))[:200])
                break
    ok = 0 <= f[1] < 86400 and 0 <= f[2] < 10**6 and 0 <= f[3] < 10**9 and 0 <= f[4] < 10**9
    total = ((f[0] * 86400 + f[1]) * 10**6 + f[2]) * 10**18 + f[3] * 10**9 + f[4]
    if not ok or total != t * 10**24 // T64:
        ctx.violation(what="timedelta fields", ticks=t, observed=str(f),
                      required=f"normalized fields adding up to floor(t*10^24/2^64) = {t * 10**24 // T64}")
    so = outcome(str, x)
    if so[0] != "ok":
        ctx.violation(what="timedelta str raised", ticks=t, fields=str(f), observed=show(so)[:160], required="normal-form [D day[s], ]H:MM:SS[.f] text")
        return
    s = so[1]
    v = td_text_value(s)
    exact = Fraction(t * 10**18, T64)
    if v is None or abs(v - exact) > 1:
        ctx.violation(what="timedelta str", ticks=t, observed=s,
                      required=f"normal-form [D day[s], ]H:MM:SS[.f] text within 1e-18 s of {float(exact) / 1e18} s")


def boundary_ticks(rng, n):
    out = [DT_MIN, DT_MIN + 1, DT_MAX, DT_MAX - 1, 0, -1, 1, T64, -T64]
    years = [1, 2, 4, 100, 400, 1600, 1700, 1900, 1903, 1904, 1905, 1970, 1999, 2000, 2024, 2025, 2100, 2400, 9996, 9999]
    years += [rng.randint(1, 9999) for _ in range(n)]
    for y in years:
        for (m, d) in ((1, 1), (2, 28), (3, 1), (12, 31), (2, 29)):
            try:
                o = dt.date(y, m, d).toordinal()
            except ValueError:
                continue
            base = (o - 1 - EPOCH_DAYS) * DAY * T64
            for off in (0, -1, 1, DAY * T64 - 1, T64 - 1, 43200 * T64 + T64 // 3, 86399 * T64 + T64 - 5):
                out.append(base + off)
    return [t for t in out if DT_MIN <= t <= DT_MAX]


def run(ctx):
    import nitypes.bintime as bt
    rng = ctx.rng
    TD, DT = bt.TimeDelta, bt.DateTime
    # ---- constants ------------------------------------------------------------------------
    if DT.min.ticks != DT_MIN or DT.max.ticks != DT_MAX:
        ctx.violation(what="DateTime.min/max", observed=(DT.min.ticks, DT.max.ticks), required=(DT_MIN, DT_MAX))
    # ---- DateTime oracle ------------------------------------------------------------------
    dts = boundary_ticks(rng, 40 if ctx.quick else 1200)
    dts += [rng.randint(DT_MIN, DT_MAX) for _ in range(1500 if ctx.quick else 25000)]
    dts += [rng.randint(-(1 << 40), 1 << 40) * T64 + rng.choice([0, 1, T64 - 1, T64 - 2, T64 // 2, rng.randrange(T64)])
            for _ in range(500 if ctx.quick else 8000)]
    sf = structured_fractions()
    for w in (0, -1, 3_831_211_530, rng.randint(-(1 << 35), 1 << 37), DT_MIN // T64 + 1, DT_MAX // T64 - 1):
        dts += [w * T64 + f for f in (sf if not ctx.quick or w in (0, 3_831_211_530) else sf[::5])]
    # every pattern of zero / non-zero among the three groups of sub-second digits the text shows (microseconds, femtoseconds,
    # yoctoseconds). Patterns that end in nine zero yoctosecond digits are rare among tick values (a tick is about 54210 ys): they are
    # found by search, several whole seconds each
    found = {}
    tries = 0
    while tries < (900000 if ctx.quick else 6000000) and (len(found) < 3 or min(len(v) for v in found.values()) < (2 if ctx.quick else 8)):
        tries += 1
        pat = tries % 3
        us = 0 if pat == 1 else rng.randrange(1, 10 ** 6)
        fs = 0 if pat == 2 else rng.randrange(1, 10 ** 9)
        Y = us * 10 ** 18 + fs * 10 ** 9
        tf = -((-Y * T64) // 10 ** 24)                # the first tick at or above Y yoctoseconds
        if tf < T64 and (tf * 10 ** 24) // T64 == Y:
            found.setdefault(("us" if us else "0") + "/" + ("fs" if fs else "0") + "/0", []).append(tf)
    for pat, fr in found.items():
        ctx.count("sub-second digit pattern", pat)
        for f in fr[:8]:
            for w in (0, 3_831_211_530, -1, DT_MAX // T64 - 1, rng.randint(-(1 << 35), 1 << 37)):
                dts.append(w * T64 + f)
    ctx.extra["digit_patterns_found"] = {k: len(v) for k, v in found.items()}
    dts = [t for t in dts if DT_MIN <= t <= DT_MAX]
    for t in dts:
        check_datetime(ctx, t, bt)
        ctx.case(("dt", t), nontrivial=(t != 0))
    for t in (DT_MIN - 1, DT_MAX + 1, I128_MIN, I128_MAX):
        o = outcome(lambda: DT.from_ticks(t).year)
        if o[0] != "err":
            ctx.violation(what="fields outside [min,max]", ticks=t, observed=show(o), required="an error, never wrapped fields")
    # ---- arbitrary constructor fields (not only the exact fields of a tick value): the tick count is the nearest tick, and
    # everything the object shows afterwards - fields, str, repr - belongs to that tick count, also when rounding carries into the
    # next second / minute / day / year
    import hightime as ht
    from fractions import Fraction
    EPOCH_ORD = dt.date(1904, 1, 1).toordinal()
    for case in range(400 if ctx.quick else 20000):
        c = rng.random()
        y, mo, d = rng.randint(1, 9999), rng.randint(1, 12), rng.randint(1, 28)
        h, mi, sec = rng.randint(0, 23), rng.randint(0, 59), rng.randint(0, 59)
        if c < 0.5:
            # a fraction within a few ticks of the next whole second, at the end of a minute / hour / day / month / year
            us, fs = 999_999, 999_999_999
            ys = rng.choice([999_999_999, 999_972_896, 999_972_895, 999_945_790, 999_990_000, 999_900_000, rng.randint(999_900_000, 999_999_999)])
            k = rng.random()
            if k < 0.7: sec = 59
            if k < 0.55: mi = 59
            if k < 0.4: h = 23
            if k < 0.25: mo, d = rng.choice([(12, 31), (1, 31), (2, 28), (6, 30)])
            if k < 0.08: y = rng.choice([1903, 1999, 2024, 2025, 9998, 1])
        else:
            us, fs, ys = rng.choice([0, 1, 999_999, rng.randrange(10**6)]), rng.choice([0, 1, 999_999_999, rng.randrange(10**9)]), rng.choice([0, 1, 27105, 54210, 999_999_999, rng.randrange(10**9)])
        fields = (y, mo, d, h, mi, sec, us, fs, ys)
        for how, mk in (("fields", lambda: DT(*fields, tzinfo=dt.timezone.utc)),
                        ("hightime", lambda: DT(ht.datetime(*fields[:7], femtosecond=fs, yoctosecond=ys, tzinfo=dt.timezone.utc)))):
            o = outcome(mk)
            exact = ((dt.date(y, mo, d).toordinal() - EPOCH_ORD) * 86400 + h * 3600 + mi * 60 + sec) * T64 + Fraction((us * 10**18 + fs * 10**9 + ys) * T64, 10**24)
            ctx.case(("ctor-fields", fields, how))
            if o[0] != "ok":
                if DT_MIN <= exact <= DT_MAX - 1:
                    ctx.violation(what="constructor refused valid fields", how=how, fields=fields, observed=show(o), required="a DateTime")
                continue
            x = o[1]
            if abs(x.ticks - exact) > Fraction(1, 2):
                ctx.violation(what="constructor tick count is not the nearest tick", how=how, fields=fields, observed=x.ticks, required=f"within 1/2 tick of {float(exact)}")
                continue
            if not (DT_MIN <= x.ticks <= DT_MAX):
                continue        # one tick past the last representable calendar instant: nothing to show
            canon = DT.from_ticks(x.ticks)
            oo = outcome(lambda: (str(x), repr(x), (x.year, x.month, x.day, x.hour, x.minute, x.second, x.microsecond, x.femtosecond, x.yoctosecond)))
            req = (str(canon), repr(canon), expected_fields(x.ticks))
            if oo != ("ok", req):
                ctx.violation(what="a DateTime built from fields shows other text / fields than its tick value has", how=how, fields=fields, ticks=x.ticks,
                              observed=str(oo[1] if oo[0] == "ok" else show(oo))[:300], required=str(req)[:300])
            ctx.count("ctor-fields", "carry into next second" if (x.ticks >> 64) != int(exact // T64) else "same second")
    # ---- instants derived from other instants (x + d, x - d, d + x) after x has been looked at: what the result shows belongs to
    # the result's own tick count (no field, date or text is inherited from the operand)
    for case in range(300 if ctx.quick else 15000):
        day = rng.randint(-690000, 2_900_000)
        frac = rng.choice([T64 // 4 * 3, T64 // 2, T64 - 1, T64 // 10 * 6, rng.randrange(T64)])
        t = (day * 86400 + rng.choice([86399, 86399, 86398, 0, 43200, rng.randrange(86400)])) * T64 + frac
        if not (DT_MIN <= t <= DT_MAX):
            continue
        x = DT.from_ticks(t)
        looked = rng.random() < 0.8
        if looked:
            _ = (x.year, x.month, x.day, repr(x), str(x))
        chain = [x]
        for _step in range(rng.choice([1, 1, 2, 4])):
            dticks = rng.choice([T64 // 2, T64 // 4, T64 // 10 * 4, 1, T64 - frac, T64, -T64 // 2, -(frac + 1), 86400 * T64, rng.randrange(2 * T64)])
            d = TD.from_ticks(dticks)
            prev = chain[-1]
            o = outcome(rng.choice([lambda: prev + d, lambda: d + prev, lambda: prev - TD.from_ticks(-dticks)]))
            if o[0] != "ok":
                break
            y = o[1]
            if not (DT_MIN <= y.ticks <= DT_MAX):
                break
            if y.ticks != prev.ticks + dticks:
                ctx.violation(what="x + d has another tick count than x.ticks + d.ticks", ticks=prev.ticks, delta=dticks, observed=y.ticks, required=prev.ticks + dticks)
                break
            oo = outcome(lambda: ((y.year, y.month, y.day, y.hour, y.minute, y.second, y.microsecond, y.femtosecond, y.yoctosecond), str(y), repr(y)))
            canon = DT.from_ticks(y.ticks)
            req = (expected_fields(y.ticks), str(canon), repr(canon))
            ctx.case(("derived", t, dticks, looked))
            if oo != ("ok", req):
                ctx.violation(what="a DateTime derived by + / - shows other fields / text than its tick value has", start_ticks=t, delta_ticks=dticks,
                              operand_was_read=looked, ticks=y.ticks, observed=str(oo[1] if oo[0] == "ok" else show(oo))[:300], required=str(req)[:300])
                break
            chain.append(y)
    # ---- TimeDelta oracle -----------------------------------------------------------------
    tds = [t for t in edge_ticks() if I128_MIN <= t <= I128_MAX]
    tds += [rand_ticks(rng, True) for _ in range(2000 if ctx.quick else 100000)]
    tds += [w * T64 + T64 - k for w in (0, 1, -1, 59, 3599, 86399, -86400, 1 << 40) for k in range(1, 14)]
    # durations around the limits of OTHER duration types (±999999999 / ±10^9 days of datetime.timedelta and hightime, their second and
    # microsecond edges), any fraction, both signs: the text is the hand-made normal form there as everywhere
    for days in (999_999_999, 1_000_000_000, 999_999_998, 10 ** 9 + 1, 10 ** 10, 106_751_991_167_300):
        for sgn in (1, -1):
            for off in (0, 1, -1, 86399, -86399, 43200, -43200, 86400, -86400):
                for frac in (0, 1, T64 // 2, T64 - 1, T64 - 9, rng.randrange(T64)):
                    tds.append((sgn * days * 86400 + off) * T64 + frac)
    tds = [max(I128_MIN, min(I128_MAX, t)) for t in tds]
    for t in tds:
        check_timedelta(ctx, t, bt)
        ctx.case(("td", t), nontrivial=(t != 0))
    # ---- translation validation of the generated properties ---------------------------------
    cases = []
    for t in tds[: (1500 if ctx.quick else 30000)]:
        x = TD.from_ticks(t)
        for name in ("days", "seconds", "microseconds", "femtoseconds", "yoctoseconds"):
            cases.append((f"TimeDelta.{name}", [t], (lambda x=x, name=name: getattr(x, name)), False))
        cases.append(("TimeDelta.str", [t], (lambda x=x: str(x)), False))
    for t in dts[: (1000 if ctx.quick else 20000)]:
        x = DT.from_ticks(t)
        for name in ("hour", "minute", "second", "microsecond", "femtosecond", "yoctosecond"):
            cases.append((f"DateTime.{name}", [t], (lambda x=x, name=name: getattr(x, name)), False))
    ctx.extra["translation_validation_cases"] = translation_validation(ctx, cases)
    # ---- hand models: fields, constructor, repr tail, calendar, text spec ---------------------------
    reqs = []
    for t in dts[: (800 if ctx.quick else 20000)] + [DT_MIN - 1, DT_MAX + 1]:
        x = DT.from_ticks(t)
        o = outcome(lambda: [x.year, x.month, x.day, x.hour, x.minute, x.second, x.microsecond, x.femtosecond, x.yoctosecond])
        reqs.append((f"dtf fields {t}", ("ok " + render(o[1])) if o[0] == "ok" else "err " + o[1]))
        if o[0] == "ok":
            f = o[1]
            rp = repr(x)
            args = [int(a) for a in rp[rp.index("(") + 1:].split(", tzinfo")[0].split(", ")]
            reqs.append((f"dtf reprtail {t}", render(args[5:])))
            # constructor on the fields and on perturbed (possibly invalid) fields
            g = list(f)
            if rng.random() < 0.5:
                i = rng.randrange(9)
                g[i] += rng.choice([-1, 1, 7, 31, 60, 10**6, 10**9])
            oc = outcome(lambda: DT(*g, tzinfo=dt.timezone.utc).ticks)
            if oc[0] == "err" and oc[1] not in ("ValueError", "OverflowError"):
                pass
            else:
                reqs.append(("dtf ctor " + " ".join(map(str, g)), ("ok " + str(oc[1])) if oc[0] == "ok" else "err " + oc[1]))
    ords = [1, 2, 365, 366, 3652059, 3652058, 146097, 146098, 36524, 36525, 1461, 1462, 695056, 719163]
    ords += [rng.randint(1, 3652059) for _ in range(1500 if ctx.quick else 5000)]
    for n in ords:
        d = dt.date.fromordinal(n)
        reqs.append((f"cal ord2ymd {n}", render((d.year, d.month, d.day))))
        reqs.append((f"cal ymd2ord {d.year} {d.month} {d.day}", str(n)))
    for u in [0, 1, 500000, 10**6, 86400 * 10**6, -1, -86400 * 10**6, 86400 * 10**6 * 2 + 5, -(10**13) + 1, 3600 * 10**6]:
        s = str(dt.timedelta(microseconds=u))
        if "." in s:
            s = s.rstrip("0")
        reqs.append((f"tdtext render18 {u * 10**12}", "s:" + s))
    for _ in range(300 if ctx.quick else 5000):
        u = rng.randint(-10**15, 10**15)
        s = str(dt.timedelta(microseconds=u))
        if "." in s:
            s = s.rstrip("0")
        reqs.append((f"tdtext render18 {u * 10**12}", "s:" + s))
    res = ctx.model([q for q, _ in reqs])
    if res is not None:
        for (q, want), got in zip(reqs, res):
            if norm_model(got) != want:
                ctx.mismatch(stream=q.split()[0] + " " + q.split()[1], request=q, model_says=got, code_says=want)
    ctx.extra["hand_model_comparisons"] = len(reqs)
    # ---- exhaustive calendar (thorough) ---------------------------------------------------------
    if not ctx.quick:
        step = 50000
        lines = [f"cal range {a} {min(a + step, 3652060)}" for a in range(1, 3652060, step)]
        out = ctx.model(lines)
        if out is not None:
            n = 0
            for line, resp in zip(lines, out):
                a = int(line.split()[2])
                for i, tok in enumerate(resp.split()):
                    d = dt.date.fromordinal(a + i)
                    if tok != f"{d.year}-{d.month}-{d.day}":
                        ctx.mismatch(stream="calendar-exhaustive", request=f"cal ord2ymd {a + i}", model_says=tok,
                                     code_says=f"{d.year}-{d.month}-{d.day}")
                        break
                    n += 1
            ctx.extra["calendar_ordinals_compared"] = n
            ctx.exhaustive = (n == 3652059)
            ctx.evaluations += n
    for q, w in reqs[:: max(1, len(reqs) // 8)][:8]:
        ctx.sample({"request": q, "response": w})


def search(ctx):
    import nitypes.bintime as bt
    for _ in range(20000):
        check_timedelta(ctx, rand_ticks(ctx.rng, True), bt)
        check_datetime(ctx, ctx.rng.randint(DT_MIN, DT_MAX), bt)
        if ctx.violations:
            return


def replay(doc):
    import nitypes.bintime as bt

    class C:
        violations = []
        def violation(self, **kw): self.violations.append(kw)
    c = C()
    v = doc["input"]
    t = int(v["ticks"])
    if "timedelta" in v.get("what", ""):
        check_timedelta(c, t, bt)
    else:
        check_datetime(c, t, bt)
    print("input:", v)
    print("violations on the current tree:", c.violations or "none")
    return 1 if c.violations else 0
