"""C07 — A rejected call leaves the object, and its arguments, exactly as they were."""
from __future__ import annotations

import copy

from props import wfm_harness as H
from props.common import outcome, show

PID = "C07"
LEAN_MODULE = "NiVerif.Props.C07"
NAMESPACE = "Props.C07"
DRIVER = "drivers/Wfm.lean"
GEN_MODULES = ["Atomic", "Args"]
EXTRA_LEAN_MODULES = ["NiVerif.Model.WfmProto", "NiVerif.Model.Atomic", "NiVerif.Props.Args"]
THEOREMS = ["failed_step_frame", "rejected_calls_are_noops", "unresizable_capacity", "unresizable_append_rejected",
            "unresizable_append_waveforms_rejected", "rejection_classes",
            "numeric_atomic", "digital_atomic", "spectrum_atomic", "criterion_rejects_old_orders",
            "Props.Args.gen_arg_to_int_spec", "Props.Args.gen_arg_to_int_plain", "Props.Args.gen_arg_to_uint_eq_prelude", "Props.Args.gen_arg_to_uint_plain", "Props.Args.gen_arg_to_uint_kind_independent"]
RULE = ("seeded histories on the four waveform classes with the malformed stream turned up (wrong dtype, dimension, "
        "signal count, timestamp count, incompatible / non-monotonic timing, out-of-range sizes and indices, unresizable "
        "borrowed buffers, wrong argument types) at every reachable state; around every rejected call the full observable "
        "state of every live object and the bytes / contents of every argument are compared before and after (oracle), "
        "and the call-by-call state is compared with Model/Wfm.lean; plus rejected single calls on DateTimeArray, "
        "TimeDeltaArray and Vector (wrong element type, bad index, bad slice) with the same before/after comparison")
TRUSTED = ["hand model NiVerif/Model/Wfm.lean (the reference outcome 'unchanged' for rejected calls) tied by correspondence; "
           "the functional model cannot exhibit a partial mutation — that the real objects and arguments are unchanged is "
           "established by direct observation around every rejected call"]
ASSUMPTIONS = ["arguments that alias the receiver are excluded (as the property says)",
               "Vector.extend / += are sequences of single inserts (DESIGN.md §10) and are checked for 'no offending item stored'"]


def container_cases(ctx):
    """Rejected single calls on DateTimeArray / TimeDeltaArray / Vector: state and arguments unchanged."""
    import nitypes.bintime as bt
    from nitypes.vector import Vector
    rng = ctx.rng
    n = 0
    for cls, acls in ((bt.TimeDelta, bt.TimeDeltaArray), (bt.DateTime, bt.DateTimeArray)):
        other = bt.DateTime if cls is bt.TimeDelta else bt.TimeDelta
        for size in (0, 1, 4):
            def fresh():
                return acls([cls.from_ticks(i * 7 + 1) for i in range(size)])
            good = cls.from_ticks(99)
            import datetime as _dt
            import hightime as _ht
            # wrong elements: unrelated types, the other bintime class, and values of the related time families (whether a class
            # accepts or refuses those, a call that raises must not have stored part of its argument)
            bad = [other.from_ticks(5), 5, "x", None, 1.5, _dt.datetime(2020, 1, 1), _dt.datetime(2020, 1, 1, tzinfo=_dt.timezone(_dt.timedelta(hours=2))),
                   _ht.datetime(2020, 1, 1), _dt.timedelta(seconds=1), _ht.timedelta(seconds=1), float("nan")]
            calls = []
            # the offending item at every position of a replacement list, for every relation between selection and list length
            for b in bad[:1] + bad[5:9]:
                for sel in ((0, 1), (0, 2), (1, 1), (0, size), (size, size)):
                    for m in (1, 2, 3, 5):
                        for j in range(m):
                            items = [good] * m
                            items[j] = b
                            calls.append((f"slice-assign[{sel[0]}:{sel[1]}]-{m}-items-bad-at-{j}", lambda a, items=items, sel=sel: a.__setitem__(slice(*sel), list(items)), [b]))
                            calls.append((f"slice-assign[{sel[0]}:{sel[1]}]-{m}-items-bad-at-{j}-iter", lambda a, items=items, sel=sel: a.__setitem__(slice(*sel), iter(list(items))), [b]))
            for b in bad:
                calls += [("setitem-bad-elem", lambda a, b=b: a.__setitem__(0, b), [b]),
                          ("insert-bad-elem", lambda a, b=b: a.insert(0, b), [b]),
                          ("append-bad-elem", lambda a, b=b: a.append(b), [b]),
                          ("slice-assign-bad-elem", lambda a, b=b: a.__setitem__(slice(0, 1), [good, b]), [b]),
                          ("extend-bad-elem", lambda a, b=b: a.extend([good, b]), [b])]
            calls += [("setitem-oob", lambda a: a.__setitem__(size + 3, good), []),
                      ("setitem-neg-oob", lambda a: a.__setitem__(-size - 1, good), []),
                      ("delitem-oob", lambda a: a.__delitem__(size), []),
                      ("getitem-oob", lambda a: a[size], []),
                      ("pop-oob", lambda a: a.pop(size + 1), []),
                      ("remove-missing", lambda a: a.remove(good), []),
                      ("index-missing", lambda a: a.index(good), []),
                      ("setitem-bad-index", lambda a: a.__setitem__("0", good), []),
                      ("delitem-bad-index", lambda a: a.__delitem__(1.5), []),
                      ("insert-bad-index", lambda a: a.insert("1", good), []),
                      ("slice-step-zero", lambda a: a.__setitem__(slice(None, None, 0), [good]), []),
                      ("ext-slice-length", lambda a: a.__setitem__(slice(None, None, 2), [good] * (size + 5)), []),
                      ("slice-assign-noniter", lambda a: a.__setitem__(slice(0, 1), 5), [])]
            for label, call, args in calls:
                a = fresh()
                before = [x.ticks for x in a]
                argcopy = list(args)
                o = outcome(call, a)
                n += 1
                if o[0] == "err":
                    after = [x.ticks for x in a]
                    if after != before or args != argcopy:
                        ctx.violation(what="rejected call changed the array", cls=acls.__name__, call=label, size=size,
                                      observed=str(after), required=str(before))
                ctx.count("container", f"{acls.__name__}:{label}:{'rejected' if o[0] == 'err' else 'accepted'}")
                ctx.case((acls.__name__, label, size))
    for vals, vt in (([1, 2, 3], int), ([1.5], float), (["a", "b"], str), ([True, False], bool), ([], int)):
        badv = {int: ["x", 1.5, None], float: [1, "x", None], str: [1, None], bool: [1, "x"]}[vt]
        for b in badv:
            for label, call in (("setitem", lambda v, b=b: v.__setitem__(0, b)), ("insert", lambda v, b=b: v.insert(0, b)),
                                ("append", lambda v, b=b: v.append(b)),
                                ("slice-assign", lambda v, b=b: v.__setitem__(slice(0, 1), [b])),
                                ("slice-assign-mixed", lambda v, b=b: v.__setitem__(slice(0, 2), list(vals[:1]) + [b])),
                                ("setitem-oob", lambda v: v.__setitem__(len(vals) + 2, vals[0] if vals else vt())),
                                ("delitem-oob", lambda v: v.__delitem__(len(vals))),
                                ("pop-empty-or-oob", lambda v: v.pop(len(vals) + 1)),
                                ("remove-missing", lambda v, b=b: v.remove(b)),
                                ("setitem-iterable", lambda v: v.__setitem__(0, [1])),
                                ("slice-assign-str", lambda v: v.__setitem__(slice(0, 1), "ab")),
                                ("slice-assign-noniter", lambda v: v.__setitem__(slice(0, 1), 5)),
                                ("units-nonstr", lambda v: setattr(v, "units", 5))):
                v = Vector(list(vals), "V", value_type=vt)
                before = (list(v), v.units, dict(v.extended_properties), v._value_type)
                o = outcome(call, v)
                n += 1
                if o[0] == "err":
                    after = (list(v), v.units, dict(v.extended_properties), v._value_type)
                    if after != before or [type(x) for x in after[0]] != [type(x) for x in before[0]]:
                        ctx.violation(what="rejected call changed the Vector", call=label, values=vals, bad=repr(b),
                                      observed=str(after), required=str(before))
                ctx.count("container", f"Vector:{label}:{'rejected' if o[0] == 'err' else 'accepted'}")
                ctx.case(("Vector", label, str(vals), repr(b)))
            # extend / +=: the offending and all later items are never stored, the stored prefix is the source prefix
            v = Vector(list(vals), value_type=vt)
            src = (list(vals[:1]) or [vt()]) + [b] + (list(vals[:1]) or [vt()])
            o = outcome(lambda: v.extend(src))
            if o[0] == "err" and (list(v)[len(vals):] != src[:1] or any(not isinstance(x, vt) for x in v)):
                ctx.violation(what="Vector.extend stored an offending item", values=vals, bad=repr(b), observed=str(list(v)),
                              required="only the valid prefix")
    return n


def borrowed_and_name_cases(ctx):
    """rejected calls on waveforms that borrow memory they can neither resize nor (for read-only memory) write; refused names"""
    from nitypes.waveform import DigitalWaveform
    rng = ctx.rng
    observe = H.observe

    def judge(info, w, before, o, after):
        if o[0] == "err" and after != before:
            diff = [k for k in set(before) | set(after) if before.get(k) != after.get(k)]
            ctx.violation(what="rejected call on a borrowed buffer changed the object", error=show(o)[:120], changed=str(diff),
                          observed=str({k: after.get(k) for k in diff})[:300], required=str({k: before.get(k) for k in diff})[:300], **info)
            return False
        return True
    n = H.borrowed_cases(ctx, judge)

    # a warning that the caller's filter turns into an exception is a raise like any other: the call that raised changed nothing
    def wjudge(info, w, before, o, after, sb, sa):
        if sb != sa:
            ctx.violation(what="an append changed one of its sources", error=show(o)[:120], **info)
            return False
        if o[0] == "err" and after != before:
            diff = [k for k in set(before) | set(after) if before.get(k) != after.get(k)]
            ctx.violation(what="append raised (a mismatch warning turned into an error) after it had changed the receiver", error=show(o)[:120], changed=str(diff),
                          observed=str({k: after.get(k) for k in diff})[:300], required=str({k: before.get(k) for k in diff})[:300], **info)
            return False
        return True
    n += H.warnings_as_errors_cases(ctx, wjudge)
    # extended properties that were unpickled from an earlier release's layout

    def ljudge(info, obj, before, o, after):
        if o[0] == "err" and after != before:
            diff = [k for k in set(before) | set(after) if before.get(k) != after.get(k)]
            ctx.violation(what="a call raised after it had changed the object (extended properties unpickled from an earlier release)", error=show(o)[:160], changed=str(diff),
                          observed=str({k: after.get(k) for k in diff})[:300], required=str({k: before.get(k) for k in diff})[:300], **info)
            return False
        return True
    n += H.legacy_dictionary_cases(ctx, ljudge)
    # requests the machine cannot satisfy (a capacity of 2**62 samples) on borrowed buffers of every layout: the refusal (MemoryError, or
    # ValueError for memory the array does not own) leaves everything as it was, including WHICH memory the waveform lives on
    import numpy as _np
    from nitypes.waveform import AnalogWaveform as _A, DigitalWaveform as _D, Spectrum as _S
    layouts = [("C-ordered 2-D", lambda: _np.zeros((4, 3), _np.uint8)), ("Fortran-ordered 2-D", lambda: _np.asfortranarray(_np.arange(12, dtype=_np.uint8).reshape(4, 3) % 2)),
               ("column-strided 2-D", lambda: (_np.arange(24, dtype=_np.uint8).reshape(4, 6) % 2)[:, ::2]), ("1-D", lambda: _np.arange(4, dtype=_np.uint8) % 2),
               ("transposed 2-D", lambda: (_np.arange(12, dtype=_np.uint8).reshape(3, 4) % 2).T)]
    for lname, mk in layouts:
        for huge in (2 ** 62, 2 ** 40 * 3):
            arr = mk()
            r = outcome(lambda: _D(data=arr))
            if r[0] != "ok":
                continue
            w = r[1]
            before, shares, flags = H.observe(w), _np.shares_memory(w.data, arr), (w.data.flags.c_contiguous, w.data.flags.f_contiguous, w.data.strides)
            o = outcome(lambda: setattr(w, "capacity", huge))
            after, shares2, flags2 = H.observe(w), _np.shares_memory(w.data, arr), (w.data.flags.c_contiguous, w.data.flags.f_contiguous, w.data.strides)
            n += 1
            ctx.case(("absurd-capacity", lname, huge))
            if o[0] == "err" and (after != before or shares != shares2 or flags != flags2):
                ctx.violation(what="a refused capacity change left the waveform on other memory / changed it", layout=lname, capacity=huge, error=show(o)[:100],
                              observed=f"shares the caller's array: {shares2}, (C, F, strides) = {flags2}", required=f"shares the caller's array: {shares}, (C, F, strides) = {flags}")
    for cls, mk in ((_A, lambda: _np.arange(5.0)), (_A, lambda: _np.arange(10.0)[::2]), (_S, lambda: _np.arange(5.0))):
        arr = mk()
        r = outcome(lambda: cls(raw_data=arr) if cls is _A else cls(data=arr))
        if r[0] != "ok":
            continue
        w = r[1]
        get = (lambda: w.raw_data) if cls is _A else (lambda: w.data)
        before, shares = H.observe(w), _np.shares_memory(get(), arr)
        o = outcome(lambda: setattr(w, "capacity", 2 ** 62))
        n += 1
        ctx.case(("absurd-capacity", cls.__name__))
        if o[0] == "err" and (H.observe(w) != before or _np.shares_memory(get(), arr) != shares):
            ctx.violation(what="a refused capacity change left the waveform on other memory / changed it", cls=cls.__name__, error=show(o)[:100],
                          observed=f"shares: {_np.shares_memory(get(), arr)}", required=f"shares: {shares}")
    n += H.narrow_scalar_cases(ctx, lambda info, obs, req: ctx.violation(what="a call with narrow NumPy integer scalars differs from the call with the same Python ints", observed=obs, required=req, **info))
    # sources carrying property values of unusual types (whatever a caller put into the mapping): the append either stores them or
    # refuses them, but never half-way
    import numpy as np
    from nitypes.waveform import AnalogWaveform, Spectrum
    for cls, mk in ((AnalogWaveform, lambda k, props: AnalogWaveform.from_array_1d(np.arange(k, dtype=np.float64), np.float64, extended_properties=props)),
                    (Spectrum, lambda k, props: Spectrum.from_array_1d(np.arange(k, dtype=np.float64), np.float64, extended_properties=props)),
                    (DigitalWaveform, lambda k, props: DigitalWaveform.from_lines(np.ones((k, 2), np.uint8), extended_properties=props))):
        for odd, key in [(o_, k_) for o_ in (np.float32(2.0), np.int64(3), None, [1, 2], b"x", 1 + 2j, ("t",), 5, True, 2.5)
                         for k_ in ("odd", "NI_UnitDescription", "NI_ChannelName", "NI_LineNames")]:
            for many in (False, True):
                recv = mk(2, {"k": "v"})
                src = mk(3, {key: odd, "plain": "p"})
                before = observe(recv)
                o = outcome(lambda: recv.append([mk(1, {"first": "1"}), src] if many else src))
                after = observe(recv)
                n += 1
                ctx.case(("odd-property", cls.__name__, key, type(odd).__name__, many))
                if o[0] == "err" and after != before:
                    diff = [k for k in before if before.get(k) != after.get(k)]
                    ctx.violation(what="append rejected because of a source's property value, after the receiver was already changed", cls=cls.__name__,
                                  key=key, value=repr(odd), error=show(o)[:100], changed=str(diff), observed=str({k: after.get(k) for k in diff})[:200],
                                  required=str({k: before.get(k) for k in diff})[:200])
                    return n
    # receivers on READ-ONLY memory that has room for the appended samples (so no growth is attempted and the refusal comes from the copy
    # itself, late): lists whose leading objects are empty but carry properties / timing, followed by a non-empty one
    from nitypes.waveform import ComplexWaveform
    for cls, key, dty in ((AnalogWaveform, "raw_data", np.float64), (ComplexWaveform, "raw_data", np.complex128), (Spectrum, "data", np.float64), (DigitalWaveform, "data", np.uint8)):
        for spare in (0, 2, 8):
            for lead in ((0,), (0, 0), (0, 1), (1, 0), ()):
                for single in (False, True):
                    buf = np.zeros((3 + spare, 1) if cls is DigitalWaveform else 3 + spare, dty)
                    buf.setflags(write=False)
                    recv = cls(**{key: buf, "sample_count": 3, "extended_properties": {"k": "v"}})
                    def mk2(k, props):
                        if cls is DigitalWaveform:
                            return DigitalWaveform.from_lines(np.ones((k, 1), np.uint8), extended_properties=props)
                        return cls.from_array_1d(np.ones(k, dty), dty, extended_properties=props)
                    objs = [mk2(k, {f"lead{i}": "x", "NI_UnitDescription": "dBm", "NI_ChannelName": "c"}) for i, k in enumerate(lead)] + [mk2(2, {"tail": "t"})]
                    arg = objs[-1] if single else objs
                    before = observe(recv)
                    o = outcome(lambda: recv.append(arg))
                    after = observe(recv)
                    n += 1
                    ctx.case(("read-only-with-room", cls.__name__, spare, lead, single))
                    if o[0] == "err" and after != before:
                        diff = [k for k in set(before) | set(after) if before.get(k) != after.get(k)]
                        ctx.violation(what="append to a read-only buffer with room was refused after the receiver had been changed", cls=cls.__name__, spare_capacity=spare,
                                      argument=("one object" if single else f"list: empty objects carrying properties x{len(lead)} (sizes {lead}), then 2 samples"), error=show(o)[:100],
                                      changed=str(diff), observed=str({k: after.get(k) for k in diff})[:200], required=str({k: before.get(k) for k in diff})[:200])
                        return n
                    if o[0] == "ok" and not (cls is not None and sum(lead) + 2 == 0):
                        ctx.violation(what="append wrote into read-only memory", cls=cls.__name__, spare_capacity=spare, observed=show(o)[:80], required="a refusal")
                        return n
    # signal names: a value that is not a str is refused and changes nothing
    for nsig in (1, 3):
        for prior in (None, "a, b, c", " x ,y"):
            for read_first in (False, True):
                for bad in (5, None, b"n", 1.5, ["a"]):
                    w = DigitalWaveform(2, nsig, extended_properties=None if prior is None else {"NI_LineNames": prior})
                    if read_first:
                        [w.signals[i].name for i in range(nsig)]
                    before = observe(w)
                    o = outcome(lambda: setattr(w.signals[rng.randrange(nsig)], "name", bad))
                    after = observe(w)
                    n += 1
                    ctx.case(("name-nonstr", nsig, prior, read_first, repr(bad)))
                    if o[0] != "err":
                        ctx.violation(what="a non-str signal name was accepted", value=repr(bad), observed=show(o), required="TypeError")
                    elif after != before:
                        ctx.violation(what="rejected signal name changed the waveform", value=repr(bad), observed=str(after["names"]),
                                      required=str(before["names"]))
                        return n
    return n


def run(ctx):
    world = H.World(ctx.rng)
    # the kinds of object accepted where an integer is (tier T12: Gen/Args.lean, Props/Args.lean) against the real converters
    from props import args_harness
    ctx.extra["int_arg_cases"] = args_harness.int_arg_cases(ctx)
    n_hist = 1200 if ctx.quick else 6000
    w = {"appa": 4, "appw": 4, "load": 4, "setcount": 3, "setcap": 3, "settiming": 3, "write": 2, "get": 1, "pickle": 0, "bad": 5}
    for i in range(n_hist):
        kind = ["analog", "complex", "spectrum", "digital"][i % 4]
        H.gen_history(world, kind, ctx.rng.randint(1, 14 if ctx.quick else 40), weights=w, irregular_bias=0.4)
    rejected = 0
    for r in world.records:
        ctx.case(r["line"], nontrivial=True)
        ctx.count("op", r["line"].split()[0] if not r.get("malformed") else "malformed:" + r["line"].split()[1])
        if r["err"] is None:
            continue
        rejected += 1
        ctx.count("rejected", r["err"][1])
        if r["before"] != r["after"]:
            changed = [n for n in r["before"] if r["before"].get(n) != r["after"].get(n)]
            n0 = changed[0] if changed else "?"
            ctx.violation(what="rejected call changed an object", line=r["line"][:300], error=r["err"], obj=n0,
                          observed=str(r["after"].get(n0))[:300], required=str(r["before"].get(n0))[:300])
        if r.get("args_changed"):
            ctx.violation(what="rejected call changed its arguments", line=r["line"][:300], error=r["err"],
                          observed="argument bytes / timestamp list differ", required="unchanged")
    ctx.extra["rejected_calls_checked"] = rejected
    ctx.extra["container_calls"] = container_cases(ctx)
    ctx.extra["borrowed_buffer_calls"] = borrowed_and_name_cases(ctx)
    ctx.extra["histories"] = n_hist
    ctx.extra["model_lines_compared"] = H.compare_with_model(ctx, world)
    errs = [(l, e) for l, e in zip(world.lines, world.expect) if e.startswith("err")]
    for line, exp in errs[:: max(1, len(errs) // 8)][:8]:
        ctx.sample({"request": line[:200], "response": exp})


def replay(doc):
    print(doc.get("input"))
    return 0
