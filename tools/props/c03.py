"""C03 — Binary-time arithmetic and ordering are exact 128-bit fixed-point operations."""
from __future__ import annotations

import operator
from decimal import Decimal
from fractions import Fraction

from props.common import (I128_MAX, I128_MIN, T64, edge_ticks, outcome, rand_ticks, show,
                          translation_validation, norm_model)

PID = "C03"
LEAN_MODULE = "NiVerif.Props.C03"
NAMESPACE = "Props.C03"
DRIVER = "drivers/C03.lean"
GEN_MODULES = ["TimeValueTuple", "TimeDelta", "DateTime"]
THEOREMS = [
    "from_ticks_checked", "add_exact", "sub_exact", "rsub_exact", "neg_exact", "abs_exact", "abs_overflow_iff",
    "mul_int_exact", "floordiv_int_exact", "floordiv_TD_exact", "mod_TD_exact", "fmod_in_range", "divmod_exact",
    "divmod_identity", "zero_divisor", "cmp_agrees", "hash_congr", "bool_spec", "dt_add_exact", "dt_sub_td_exact",
    "dt_sub_dt_exact", "dt_rsub_dt_exact", "add_sub_cancel", "dt_cmp_agrees", "reflected_aliases",
    "mixed_result_kind", "mixed_cmp_trichotomy", "mixed_cmp_swap", "mixed_add_dt_error", "mixed_add_ht_error",
    "mixed_td_plus_dtabs_error", "mixed_td_plus_htabs_error",
    "cmpInt_trichotomy", "cmpHt_is_cmpInt", "mixed_cmp_ht_total", "mixed_cmp_ht_out_of_range",
    # mixed divmod: quotient and remainder belong to one converted divisor
    "init_check_checked", "conv_divmod_identity", "mixed_divmod_identity_ht", "mixed_divmod_identity_dt",
]
RULE = ("operand pairs from the 128-bit edge lattice squared (carry from fraction into seconds, negatives with "
        "non-zero fraction, results at ±2^127∓1, zero divisors) plus seeded random pairs; every operator of "
        "TimeDelta/DateTime on bintime operands is checked against Python big-int arithmetic on .ticks and against "
        "the generated Lean definition; mixed datetime/hightime/int operands go through the real operators in both "
        "operand orders and through Model/Mixed.lean; non-trivial = distinct (op, operands) with a non-zero operand")
TRUSTED = [
    "hand model NiVerif/Model/Mixed.lean + Model/Conv.lean: Python reflected-operator dispatch, datetime/hightime "
    "integer semantics (compared with the real operators on every mixed case explored)",
]
ASSUMPTIONS = [
    "datetime/hightime operands of mixed operations are UTC-aware (DESIGN.md §10); naive/non-UTC operands are refused",
    "a*float and a*Decimal are checked on the real code against exact Fractions (oracle); their Lean treatment "
    "is relative to the 64-digit decimal context (partial)",
]

OPS = {"add": operator.add, "sub": operator.sub, "mul": operator.mul, "floordiv": operator.floordiv,
       "mod": operator.mod, "divmod": divmod, "lt": operator.lt, "le": operator.le, "eq": operator.eq,
       "gt": operator.gt, "ge": operator.ge}


def checked(r):
    return ("ok", r) if I128_MIN <= r <= I128_MAX else ("err", "OverflowError")


def expect_td(op, a, b):
    """Expected outcome of TimeDelta op TimeDelta/int by integer arithmetic on ticks (the property itself)."""
    if op == "add": return checked(a + b)
    if op == "sub": return checked(a - b)
    if op == "neg": return checked(-a)
    if op == "abs": return checked(abs(a))
    if op == "mul_int": return checked(a * b)
    if op == "floordiv_int": return ("err", "ZeroDivisionError") if b == 0 else checked(a // b)
    if op == "floordiv": return ("err", "ZeroDivisionError") if b == 0 else ("ok", a // b)
    if op == "mod": return ("err", "ZeroDivisionError") if b == 0 else checked(a % b)
    if op == "divmod": return ("err", "ZeroDivisionError") if b == 0 else ("ok", (a // b, a % b))
    raise ValueError(op)


def obs(o):
    """Observed outcome reduced to ints."""
    if o[0] == "err":
        return ("err", o[1])
    v = o[1]
    if isinstance(v, tuple):
        return ("ok", tuple(getattr(x, "ticks", x) for x in v))
    return ("ok", getattr(v, "ticks", v))


def check_core(ctx, a, b, bt):
    TD, DT = bt.TimeDelta, bt.DateTime
    x, y = TD.from_ticks(a), TD.from_ticks(b)
    cases = [
        ("add", outcome(operator.add, x, y), expect_td("add", a, b), TD),
        ("sub", outcome(operator.sub, x, y), expect_td("sub", a, b), TD),
        ("neg", outcome(operator.neg, x), expect_td("neg", a, None), TD),
        ("abs", outcome(abs, x), expect_td("abs", a, None), TD),
        ("floordiv", outcome(operator.floordiv, x, y), expect_td("floordiv", a, b), int),
        ("mod", outcome(operator.mod, x, y), expect_td("mod", a, b), TD),
        ("divmod", outcome(divmod, x, y), expect_td("divmod", a, b), tuple),
    ]
    k = b if abs(b) < (1 << 70) else b >> 64
    cases += [
        ("mul_int", outcome(operator.mul, x, k), expect_td("mul_int", a, k), TD),
        ("rmul_int", outcome(operator.mul, k, x), expect_td("mul_int", a, k), TD),
        ("floordiv_int", outcome(operator.floordiv, x, k), expect_td("floordiv_int", a, k), TD),
    ]
    # the integer operand may be any integer object (a NumPy scalar of any width, an IntEnum value, a bool): the same integer, the
    # same exact result - also beyond 2**53, where a detour through float would round
    import numpy as np
    for T in (np.int64, np.uint64, np.int32, np.int8):
        info = np.iinfo(T)
        if info.min <= k <= info.max:
            cases += [(f"mul_{T.__name__}", outcome(operator.mul, x, T(k)), expect_td("mul_int", a, k), TD),
                      (f"floordiv_{T.__name__}", outcome(operator.floordiv, x, T(k)), expect_td("floordiv_int", a, k), TD)]
    for name, o, want, rtype in cases:
        got = obs(o)
        if got != want or (o[0] == "ok" and not isinstance(o[1], rtype)):
            ctx.violation(op=name, a=a, b=(k if "int" in name else b), observed=show(o),
                          required=f"{want} as {rtype.__name__} (integer arithmetic on ticks)")
        ctx.count("outcome", want[0] if want[0] == "ok" else want[1])
    if b != 0:
        o = outcome(divmod, x, y)
        if o[0] == "ok" and not (o[1][0] * b + o[1][1].ticks == a):
            ctx.violation(op="divmod_identity", a=a, b=b, observed=show(o), required="a == (a//b)*b + a%b")
    # ordering / hash / bool agree with the integer order of ticks
    for name, f in (("lt", operator.lt), ("le", operator.le), ("eq", operator.eq), ("ne", operator.ne),
                    ("gt", operator.gt), ("ge", operator.ge)):
        for mk in (TD.from_ticks, DT.from_ticks):
            r = f(mk(a), mk(b))
            if r is not f(a, b):
                ctx.violation(op=name, a=a, b=b, cls=mk.__self__.__name__, observed=repr(r), required=repr(f(a, b)))
    if (hash(x) == hash(TD.from_ticks(a))) is not True or bool(x) is not (a != 0):
        ctx.violation(op="hash/bool", a=a, observed=f"hash={hash(x)} bool={bool(x)}", required="hash stable, bool(a) == (ticks != 0)")
    if a == b and hash(x) != hash(y):
        ctx.violation(op="hash", a=a, observed="equal values hash differently", required="equal hashes")
    # DateTime ± TimeDelta, DateTime − DateTime
    t = DT.from_ticks(a)
    for name, o, want, rtype in (
            ("dt+td", outcome(operator.add, t, y), checked(a + b), DT),
            ("td+dt", outcome(operator.add, y, t), checked(a + b), DT),
            ("dt-td", outcome(operator.sub, t, y), checked(a - b), DT),
            ("dt-dt", outcome(operator.sub, t, DT.from_ticks(b)), checked(a - b), TD)):
        got = obs(o)
        if got != want or (o[0] == "ok" and not isinstance(o[1], rtype)):
            ctx.violation(op=name, a=a, b=b, observed=show(o), required=f"{want} as {rtype.__name__}")
    o = outcome(operator.add, t, y)
    if o[0] == "ok":
        back = outcome(operator.sub, o[1], t)
        if obs(back) != ("ok", b):
            ctx.violation(op="(t+d)-t", a=a, b=b, observed=show(back), required=f"exactly d = {b}")


RESULT_KIND = {
    # (op, left kind, right kind) -> documented result kind
    ("add", "btTd", "dtTd"): "btTd", ("add", "btTd", "htTd"): "btTd", ("add", "dtTd", "btTd"): "btTd",
    ("add", "htTd", "btTd"): "btTd", ("sub", "btTd", "dtTd"): "btTd", ("sub", "btTd", "htTd"): "btTd",
    ("sub", "dtTd", "btTd"): "btTd", ("sub", "htTd", "btTd"): "btTd",
    ("add", "btTd", "dtDt"): "dtDt", ("add", "btTd", "htDt"): "htDt", ("add", "dtDt", "btTd"): "dtDt",
    ("add", "htDt", "btTd"): "htDt", ("sub", "dtDt", "btTd"): "dtDt", ("sub", "htDt", "btTd"): "htDt",
    ("add", "btDt", "dtTd"): "btDt", ("add", "btDt", "htTd"): "btDt", ("add", "dtTd", "btDt"): "btDt",
    ("add", "htTd", "btDt"): "btDt", ("sub", "btDt", "dtTd"): "btDt", ("sub", "btDt", "htTd"): "btDt",
    ("sub", "btDt", "dtDt"): "btTd", ("sub", "btDt", "htDt"): "btTd", ("sub", "dtDt", "btDt"): "btTd",
    ("sub", "htDt", "btDt"): "btTd",
    ("mod", "btTd", "dtTd"): "btTd", ("mod", "btTd", "htTd"): "btTd",
}
SIGN = {"add": 1, "sub": -1}


def check_mixed(ctx, op, l, r, tv):
    """Oracle for one mixed cell on the real code; returns the model request line + observed text."""
    lv, rv = tv.from_model(*l), tv.from_model(*r)
    o = outcome(OPS[op], lv, rv)
    if o[0] == "ok":
        try:
            m = tv.to_model(o[1])
        except TypeError:
            ctx.violation(op=op, left=l, right=r, observed=f"result of type {type(o[1]).__name__}",
                          required="a bintime/datetime/hightime value, int or bool")
            return None
        want_kind = RESULT_KIND.get((op, l[0], r[0]))
        if want_kind and m[0] != want_kind:
            ctx.violation(op=op, left=l, right=r, observed=m[0], required=f"documented result type {want_kind}")
        if want_kind and op in SIGN:
            # value within one unit of the result type's resolution of the exact rational result
            if l[0].endswith("Dt") and r[0].endswith("Dt"):
                exact = tv.seconds_of(*l) - tv.seconds_of(*r)
            elif r[0].endswith("Dt") and op == "add":
                exact = tv.seconds_of(*l) + tv.seconds_of(*r)
            else:
                exact = tv.seconds_of(*l) + SIGN[op] * tv.seconds_of(*r)
            err = abs(tv.seconds_of(*m) - exact)
            if not err < tv.UNIT[m[0]]:
                ctx.violation(op=op, left=l, right=r, observed=f"{m} error={float(err)}s",
                              required=f"within one unit ({float(tv.UNIT[m[0]])} s) of the exact result")
        text = "ok " + tv.render_model(m)
    else:
        text = "err " + o[1]
        want_kind = RESULT_KIND.get((op, l[0], r[0]))
        if want_kind in ("btTd", "btDt") and op in SIGN:
            # a refusal is only right when the exact result does not fit the result type: anything that fits has a value
            if l[0].endswith("Dt") and r[0].endswith("Dt"):
                exact = tv.seconds_of(*l) - tv.seconds_of(*r)
            elif r[0].endswith("Dt") and op == "add":
                exact = tv.seconds_of(*l) + tv.seconds_of(*r)
            else:
                exact = tv.seconds_of(*l) + SIGN[op] * tv.seconds_of(*r)
            ticks = (exact - (695055 * 86400 if want_kind == "btDt" else 0)) * T64
            if I128_MIN + 1 <= ticks <= I128_MAX - 1 or (ticks.denominator == 1 and I128_MIN <= ticks <= I128_MAX):
                ctx.violation(op=op, left=l, right=r, observed=show(o), required=f"a {want_kind} value: the exact result ({float(ticks):.6g} ticks) is inside the 128-bit range")
    if op in ("lt", "eq", "gt"):
        rs = {}
        for name in ("lt", "eq", "gt"):
            oo = outcome(OPS[name], lv, rv)
            rs[name] = oo
        both_times = l[0][2:] == r[0][2:] and l[0][2:] in ("Td", "Dt")
        if both_times and not all(x[0] == "ok" for x in rs.values()):
            # a comparison of two valid (UTC) time values is a question with an answer: it never raises, however far apart the ranges
            # of the two types are (a bintime value beyond hightime's range is simply beyond every hightime value)
            bad = next(k for k, x in rs.items() if x[0] != "ok")
            ctx.violation(op="trichotomy", left=l, right=r, observed=f"{bad}: {show(rs[bad])}", required="exactly one of <, ==, > holds (no exception)")
        if all(x[0] == "ok" for x in rs.values()):
            if sum(1 for x in rs.values() if x[1] is True) != 1:
                ctx.violation(op="trichotomy", left=l, right=r, observed={k: v[1] for k, v in rs.items()},
                              required="exactly one of <, ==, > holds")
            swapped = {"lt": outcome(operator.gt, rv, lv), "eq": outcome(operator.eq, rv, lv),
                       "gt": outcome(operator.lt, rv, lv)}
            for name in rs:
                if swapped[name][0] != "ok" or swapped[name][1] is not rs[name][1]:
                    ctx.violation(op="swap-" + name, left=l, right=r, observed=show(swapped[name]),
                                  required=f"same answer with operands swapped ({rs[name][1]})")
    ctx.count("mixed", f"{op} {l[0]} {r[0]}")
    ctx.count("outcome", o[0] if o[0] == "ok" else o[1])
    return (f"mixed {op} {l[0]} {l[1]} {r[0]} {r[1]}", text)


def gen_kind(rng, kind, tv):
    if kind == "btTd": return ("btTd", rand_ticks(rng, in_range_only=True) if rng.random() < 0.5 else rng.randint(-(1 << 100), 1 << 100))
    if kind == "btDt": return ("btDt", tv.gen_bt_dt_ticks(rng))
    if kind == "dtTd": return ("dtTd", tv.gen_dt_td(rng))
    if kind == "htTd": return ("htTd", tv.gen_ht_td(rng))
    if kind == "dtDt": return ("dtDt", tv.gen_dt_abs(rng))
    if kind == "htDt": return ("htDt", tv.gen_ht_abs(rng))
    if kind == "int": return ("int", rng.choice([0, 1, -1, 2, -3, 10, 1 << 64, rng.randint(-1000, 1000)]))
    raise ValueError(kind)


MIXED_CELLS = sorted(set(list(RESULT_KIND) + [
    (op, a, b) for op in ("lt", "le", "eq", "gt", "ge")
    for a, b in (("btTd", "dtTd"), ("btTd", "htTd"), ("dtTd", "btTd"), ("htTd", "btTd"),
                 ("btDt", "dtDt"), ("btDt", "htDt"), ("dtDt", "btDt"), ("htDt", "btDt"))
] + [("divmod", "btTd", "dtTd"), ("divmod", "btTd", "htTd"), ("mul", "btTd", "int"), ("mul", "int", "btTd"),
     ("floordiv", "btTd", "int"), ("floordiv", "btTd", "btTd"), ("sub", "btTd", "btDt"), ("sub", "dtTd", "btDt"),
     ("sub", "htTd", "btDt"), ("mod", "dtTd", "btTd"), ("floordiv", "btTd", "dtTd"), ("add", "btDt", "btDt"),
     ("mul", "btTd", "btTd"), ("add", "btTd", "int"), ("eq", "btTd", "int"), ("lt", "btTd", "int")]))


def check_float_decimal(ctx, bt, n):
    """a*float and a*Decimal: within one tick of the exact rational product (oracle on the real code)."""
    TD = bt.TimeDelta
    rng = ctx.rng
    for _ in range(n):
        a = rng.choice([rng.randint(-(1 << 90), 1 << 90), rng.randint(-(1 << 66), 1 << 66), rand_ticks(rng, True)])
        if rng.random() < 0.5:
            q = rng.choice([0.5, 0.1, 3.0, -2.5, 1e-3, 1e3, rng.uniform(-10, 10), rng.uniform(-1e-6, 1e-6), 1 / 3])
            exact = Fraction(a) * Fraction(q)
        else:
            q = Decimal(rng.choice(["0.1", "3", "-2.5", "1e-9", "0.333333333333333333333333", "12345.6789",
                                    str(rng.randint(-10**6, 10**6)) + "e-" + str(rng.randint(0, 12))]))
            exact = Fraction(a) * Fraction(q)
        o = outcome(operator.mul, TD.from_ticks(a), q)
        inr = I128_MIN <= exact <= I128_MAX
        if o[0] == "ok":
            if not isinstance(o[1], TD) or abs(o[1].ticks - exact) > 1:
                ctx.violation(op="mul", a=a, q=repr(q), observed=show(o), required=f"within one tick of {float(exact)}")
        elif o[1] != "OverflowError" or (inr and abs(exact) < (1 << 126)):
            ctx.violation(op="mul", a=a, q=repr(q), observed=show(o), required="a value within one tick, or OverflowError out of range")
        ctx.case(("mulq", a, repr(q)))
        ctx.count("mixed", "mul float" if isinstance(q, float) else "mul Decimal")


def check_float_products_by_magnitude(ctx, bt, n):
    """a*float where binary floating point is tempting: tick counts no double holds (53 bits and more, low bits just beside half an ulp)
    times floats chosen so that the exact product has every magnitude around 2**53 ticks and below - the result is within one tick of
    the exact rational product there as everywhere; and values that were LOOKED AT (repr, str, total_seconds, precision_total_seconds,
    hash) before being negated / made absolute and multiplied behave like fresh ones."""
    TD = bt.TimeDelta
    rng = ctx.rng
    for i in range(n):
        bits = rng.choice([53, 54, 56, 60, 64, 70, 90, 126])
        k = bits - 53
        m = rng.getrandbits(52) | (1 << 52)
        a = (m << k) + ((1 << (k - 1)) + rng.choice([-1, 1, 0]) if k > 0 else 0)          # beside a rounding tie of int -> double
        a = rng.choice([1, -1]) * a
        target = rng.choice([rng.uniform(0.85, 1.0) * 2.0 ** 53, rng.uniform(0.5, 1.0) * 2.0 ** 53, rng.uniform(1.0, 2.0) * 2.0 ** 53, 2.0 ** rng.uniform(30, 52), 2.0 ** rng.uniform(53, 70)])
        q = rng.choice([1, -1]) * target / abs(a)
        if q == 0.0:
            continue
        exact = Fraction(a) * Fraction(q)
        o = outcome(operator.mul, TD.from_ticks(a), q)
        ctx.case(("mulq-magnitude", bits, i))
        ctx.count("mixed", "mul float (products around 2**53 ticks)")
        if o[0] != "ok" or not isinstance(o[1], TD) or abs(o[1].ticks - exact) > 1:
            ctx.violation(op="mul", a=a, q=repr(q), observed=show(o), required=f"within one tick of {float(exact)!r} (exact product of a tick count of {bits} bits)")
            return
    looks = [("repr", repr), ("str", str), ("precision_total_seconds", lambda x: x.precision_total_seconds()), ("total_seconds", lambda x: x.total_seconds()), ("hash", hash),
             ("fields", lambda x: (x.days, x.seconds, x.microseconds, x.femtoseconds, x.yoctoseconds)), ("to_tuple", lambda x: x.to_tuple())]
    derive = [("-a", lambda x: -x), ("abs(a)", abs), ("+a", lambda x: +x), ("a + 0", lambda x: x + TD.from_ticks(0)), ("a - 0", lambda x: x - TD.from_ticks(0)), ("a * 1", lambda x: x * 1),
              ("copy", lambda x: __import__("copy").copy(x))]
    for whole in (3, 10 ** 8 + 7, 10 ** 9 * 4 + 1, 123_456_789_012, (1 << 62) + 12345):
        for sign in (1, -1):
            for lname, look in looks:
                for dname, dv in derive:
                    a = sign * ((whole << 64) + 0x9E3779B97F4A7C15)
                    x = TD.from_ticks(a)
                    outcome(look, x)
                    r = outcome(dv, x)
                    if r[0] != "ok":
                        continue
                    y = r[1]
                    for q in (1.0, 1.5, Decimal("2.5"), 1e-3, Decimal("1")):
                        exact = Fraction(y.ticks) * Fraction(q)
                        if not (I128_MIN <= exact <= I128_MAX):
                            continue
                        o = outcome(operator.mul, y, q)
                        ctx.case(("looked-at", whole, sign, lname, dname, repr(q)))
                        if o[0] != "ok" or abs(o[1].ticks - exact) > 1:
                            ctx.violation(op="mul", history=f"{lname}(a); b = {dname}; b * {q!r}", a=a, observed=show(o), required=f"within one tick of {float(exact)!r}")
                            return


def run(ctx):
    import nitypes.bintime as bt
    import props.timeval as tv
    rng = ctx.rng
    edges = [t for t in edge_ticks() if I128_MIN <= t <= I128_MAX]
    small = [0, 1, -1, 2, -2, 3, -3, 7, -7, T64, -T64, T64 - 1, -(T64 - 1), I128_MAX, I128_MIN, I128_MAX - 1, I128_MIN + 1]
    pairs = [(a, b) for a in small for b in small]
    n_pairs = 1500 if ctx.quick else 60000
    for _ in range(n_pairs):
        c = rng.random()
        a = rng.choice(edges) if c < 0.4 else rand_ticks(rng, True)
        c = rng.random()
        b = rng.choice(edges) if c < 0.3 else (rng.choice(small) if c < 0.5 else rand_ticks(rng, True))
        a = max(I128_MIN, min(I128_MAX, a)); b = max(I128_MIN, min(I128_MAX, b))
        pairs.append((a, b))
        if c > 0.8:  # results just inside / outside the range
            pairs.append((a, rng.choice([I128_MAX - a, I128_MAX - a + 1, I128_MIN - a, I128_MIN - a - 1])
                          if I128_MIN <= rng.choice([I128_MAX - a]) <= I128_MAX else b))
    pairs = [(a, b) for a, b in pairs if I128_MIN <= a <= I128_MAX and I128_MIN <= b <= I128_MAX]
    for a, b in pairs:
        check_core(ctx, a, b, bt)
        ctx.case(("core", a, b), nontrivial=(a != 0 or b != 0))
    # translation validation of every generated operator
    TD, DT = bt.TimeDelta, bt.DateTime
    tvc = []
    for a, b in pairs[: (1200 if ctx.quick else 20000)]:
        x, y = TD.from_ticks(a), TD.from_ticks(b)
        k = b if abs(b) < (1 << 70) else b >> 64
        tvc += [
            ("TimeDelta.add_TD", [a, b], lambda x=x, y=y: (x + y).ticks, True),
            ("TimeDelta.sub_TD", [a, b], lambda x=x, y=y: (x - y).ticks, True),
            ("TimeDelta.rsub_TD", [a, b], lambda x=x, y=y: x.__rsub__(y).ticks, True),
            ("TimeDelta.neg", [a], lambda x=x: (-x).ticks, True),
            ("TimeDelta.abs", [a], lambda x=x: abs(x).ticks, True),
            ("TimeDelta.pos", [a], lambda x=x: (+x).ticks, False),
            ("TimeDelta.mul_int", [a, k], lambda x=x, k=k: (x * k).ticks, True),
            ("TimeDelta.floordiv_TD", [a, b], lambda x=x, y=y: x // y, True),
            ("TimeDelta.floordiv_int", [a, k], lambda x=x, k=k: (x // k).ticks, True),
            ("TimeDelta.mod_TD", [a, b], lambda x=x, y=y: (x % y).ticks, True),
            ("TimeDelta.divmod_TD", [a, b], lambda x=x, y=y: (lambda r: (r[0], r[1].ticks))(divmod(x, y)), True),
            ("TimeDelta.lt_TD", [a, b], lambda x=x, y=y: x < y, False),
            ("TimeDelta.le_TD", [a, b], lambda x=x, y=y: x <= y, False),
            ("TimeDelta.eq_TD", [a, b], lambda x=x, y=y: x == y, False),
            ("TimeDelta.gt_TD", [a, b], lambda x=x, y=y: x > y, False),
            ("TimeDelta.ge_TD", [a, b], lambda x=x, y=y: x >= y, False),
            ("TimeDelta.bool", [a], lambda x=x: bool(x), False),
            ("TimeDelta.hash", [a], lambda x=x: hash(x), False),
            ("DateTime.add_TD", [a, b], lambda a=a, y=y: (DT.from_ticks(a) + y).ticks, True),
            ("DateTime.sub_TD", [a, b], lambda a=a, y=y: (DT.from_ticks(a) - y).ticks, True),
            ("DateTime.sub_DT", [a, b], lambda a=a, b=b: (DT.from_ticks(a) - DT.from_ticks(b)).ticks, True),
            ("DateTime.rsub_DT", [a, b], lambda a=a, b=b: DT.from_ticks(a).__rsub__(DT.from_ticks(b)).ticks, True),
            ("DateTime.lt_DT", [a, b], lambda a=a, b=b: DT.from_ticks(a) < DT.from_ticks(b), False),
            ("DateTime.ge_DT", [a, b], lambda a=a, b=b: DT.from_ticks(a) >= DT.from_ticks(b), False),
            ("DateTime.eq_DT", [a, b], lambda a=a, b=b: DT.from_ticks(a) == DT.from_ticks(b), False),
            ("DateTime.hash", [a], lambda a=a: hash(DT.from_ticks(a)), False),
        ]
    ctx.extra["translation_validation_cases"] = translation_validation(ctx, tvc)
    # mixed operands: real operators vs Model/Mixed.lean, every cell, both operand orders
    reqs = []
    per_cell = 25 if ctx.quick else 600
    for (op, lk, rk) in MIXED_CELLS:
        for _ in range(per_cell):
            l, r = gen_kind(rng, lk, tv), gen_kind(rng, rk, tv)
            got = check_mixed(ctx, op, l, r, tv)
            ctx.case(("mixed", op, l, r))
            if got:
                reqs.append(got)
    # comparisons of a bintime value with the hightime / datetime value next to it: exactly its conversion (the value truncated to
    # whole yoctoseconds / microseconds), one unit below, one unit above - where <, == and > must still be one consistent answer
    for _ in range(40 if ctx.quick else 2000):
        a = rng.choice([1, 3, T64 // 3, rng.randrange(1, T64), rng.randint(-(1 << 80), 1 << 80) | 1, -1, -(T64 // 7)])
        for kind, scale in (("htTd", 10**24), ("dtTd", 10**6)):
            conv = (a * scale) >> 64                    # floor: what bintime -> hightime / datetime conversion yields
            for d in (-1, 0, 1):
                for op in ("lt", "eq", "gt"):
                    for pair in ((("btTd", a), (kind, conv + d)), ((kind, conv + d), ("btTd", a))):
                        got = check_mixed(ctx, op, pair[0], pair[1], tv)
                        ctx.case(("mixed-neighbour", op, pair))
                        if got:
                            reqs.append(got)
    # divmod / % of a bintime duration by a datetime / hightime duration that is no binary fraction of a second, at dividends that are
    # (within a few ticks) whole multiples of the divisor - of its tick conversion and of its exact value, where a quotient taken
    # against one and a remainder taken against the other no longer belong together: quotient * divisor + remainder is the dividend
    # (up to the divisor's conversion error, half a tick per unit of quotient), the remainder has the divisor's sign and is smaller
    TDc = bt.TimeDelta
    for kind, scale, units in (("htTd", 10**24, [100 * 10**18, 3 * 10**18, 700 * 10**9, 10**21, 10**24 // 3, 123456789 * 10**9]),
                               ("dtTd", 10**6, [100, 3, 1000, 333333, 7, 86400 * 10**6 + 1])):
        for u in units:
            for sgn in (1, -1):
                bm = (kind, sgn * u)
                bconv = outcome(TDc, tv.from_model(*bm))
                if bconv[0] != "ok" or bconv[1].ticks == 0:
                    continue
                B = bconv[1].ticks
                exact_b = Fraction(sgn * u, scale) * T64
                for n in (1, 2, 3, 1000, 10000, 1199999999, rng.randint(2, 10**6)):
                    if abs(n * B) >= (1 << 126):
                        continue
                    seams = {n * B, n * B - 1, n * B + 1, int(n * exact_b), int(n * exact_b) + 1, int(n * exact_b) - 1, (n * B + int(n * exact_b)) // 2}
                    for a in sorted(seams):
                        for op in ("divmod", "mod"):
                            got = check_mixed(ctx, op, ("btTd", a), bm, tv)
                            ctx.case(("mixed-seam", op, a, bm))
                            if got:
                                reqs.append(got)
                        o = outcome(divmod, TDc.from_ticks(a), tv.from_model(*bm))
                        ctx.count("mixed", "divmod at whole multiples of a decimal divisor")
                        if o[0] != "ok" or not (isinstance(o[1], tuple) and len(o[1]) == 2 and type(o[1][0]) is int and isinstance(o[1][1], TDc)):
                            ctx.violation(op="divmod", left=("btTd", a), right=bm, observed=show(o), required="(int, TimeDelta)")
                            continue
                        q, r = o[1][0], o[1][1].ticks
                        resid = abs(a - (q * exact_b + r))
                        if resid > abs(q) + 1 or not (r == 0 or (r > 0) == (B > 0)) or abs(r) >= abs(B):
                            ctx.violation(op="divmod", left=("btTd", a), right=bm, observed=f"quotient {q}, remainder {r} ticks: quotient*divisor + remainder misses the dividend by {float(resid):.6g} ticks",
                                          required="dividend == quotient*divisor + remainder (within the divisor's conversion error), remainder of the divisor's sign and smaller than it")
    # a bintime duration at the ends of the hightime / datetime ranges (+-10^9 days: the first value the other family cannot hold, the
    # last one it can, their neighbours by a tick) against values of those families: the answer is still the exact order
    for days in (10**9, -999999999, -10**9, 999999999):
        for dtick in (-2, -1, 0, 1, 2, T64, -T64):
            a = ((days * 86400) << 64) + dtick
            for kind, lo, hi, scale in (("htTd", tv.HT_TD_MIN, tv.HT_TD_MAX, 10**24), ("dtTd", tv.DT_TD_MIN, tv.DT_TD_MAX, 10**6)):
                for other in (hi, lo, 0, 86400 * scale, hi - 1, lo + 1):
                    for op in ("lt", "le", "eq", "gt", "ge"):
                        for pair in ((("btTd", a), (kind, other)), ((kind, other), ("btTd", a))):
                            got = check_mixed(ctx, op, pair[0], pair[1], tv)
                            ctx.case(("mixed-range-end", op, pair))
                            if got:
                                reqs.append(got)
    # mixed sums and differences whose exact result lies on, just inside and just outside the ends of the 128-bit range
    for (op, lk, rk), want_kind in sorted(RESULT_KIND.items()):
        if want_kind != "btTd" or op not in SIGN or "Dt" in lk + rk:
            continue
        small_kind, bt_left = (rk, True) if lk == "btTd" else (lk, False)
        for _ in range(6 if ctx.quick else 200):
            k = rng.choice([1, -1, 2, -3, 17, -86400, 3600])                       # whole seconds of the datetime / hightime operand
            small = (small_kind, k * (10**6 if small_kind == "dtTd" else 10**24))
            for target in (I128_MIN, I128_MIN + 1, I128_MAX, I128_MAX - 1, I128_MIN - 1, I128_MAX + 1, I128_MIN + T64, I128_MAX - T64 + 1):
                # solve  l op r = target  for the bintime operand
                if bt_left:
                    b = target - SIGN[op] * k * T64
                    pair = (("btTd", b), small)
                else:
                    b = (target - k * T64) * SIGN[op]
                    pair = (small, ("btTd", b))
                if not (I128_MIN <= b <= I128_MAX):
                    continue
                got = check_mixed(ctx, op, pair[0], pair[1], tv)
                ctx.case(("mixed-edge", op, pair))
                ctx.count("mixed-edge", "inside" if I128_MIN <= target <= I128_MAX else "outside")
                if got:
                    reqs.append(got)
    # the same for differences of instants (bintime DateTime against datetime / hightime datetimes, both operand orders): exact results at
    # the ends of the TimeDelta range
    EPOCH_US = 695055 * 86400 * 10**6                         # 1904-01-01 in microseconds since 0001-01-01
    for (op, lk, rk), want_kind in sorted(RESULT_KIND.items()):
        if not (op == "sub" and want_kind == "btTd" and lk.endswith("Dt") and rk.endswith("Dt")):
            continue
        other_kind, bt_left = (rk, True) if lk == "btDt" else (lk, False)
        for _ in range(4 if ctx.quick else 100):
            k = rng.choice([-1, 1, -86400, 86400 * 365, -3600, 17])           # the datetime operand: 1904-01-01 plus k seconds
            scale = 10**6 if other_kind == "dtDt" else 10**24
            other = (other_kind, (EPOCH_US // 10**6 + k) * scale)
            for target in (I128_MIN, I128_MIN + 1, I128_MAX, I128_MAX - 1, I128_MIN - 1, I128_MAX + 1):
                # bt - other = target  or  other - bt = target, in ticks relative to 1904
                b = target + k * T64 if bt_left else k * T64 - target
                if not (I128_MIN <= b <= I128_MAX):
                    continue
                pair = (("btDt", b), other) if bt_left else (other, ("btDt", b))
                got = check_mixed(ctx, op, pair[0], pair[1], tv)
                ctx.case(("mixed-edge-dt", op, pair))
                if got:
                    reqs.append(got)
    res = ctx.model([q for q, _ in reqs])
    if res is not None:
        for (q, want), got in zip(reqs, res):
            if norm_model(got) != want:
                ctx.mismatch(stream="mixed-operators", request=q, model_says=got, code_says=want)
    ctx.extra["mixed_cells"] = len(MIXED_CELLS)
    ctx.extra["mixed_cases"] = len(reqs)
    check_float_decimal(ctx, bt, 300 if ctx.quick else 20000)
    check_float_products_by_magnitude(ctx, bt, 6000 if ctx.quick else 200000)
    for s in pairs[5:8]:
        ctx.sample({"a_ticks": s[0], "b_ticks": s[1], "ops": "add sub neg abs mul floordiv mod divmod cmp hash"})
    for q, w in reqs[:200:40]:
        ctx.sample({"request": q, "response": w})


def search(ctx):
    import nitypes.bintime as bt
    for _ in range(20000):
        check_core(ctx, rand_ticks(ctx.rng, True), rand_ticks(ctx.rng, True), bt)
        if ctx.violations:
            return


def replay(doc):
    import nitypes.bintime as bt
    import props.timeval as tv

    class C:
        violations = []
        def violation(self, **kw): self.violations.append(kw)
        def count(self, *a, **k): pass
    c = C()
    v = doc["input"]
    if "left" in v:
        op = v["op"].replace("swap-", "") if v["op"] not in ("trichotomy",) else "lt"
        check_mixed(c, op, tuple(v["left"]), tuple(v["right"]), tv)
    elif "q" in v:
        print("float/Decimal case:", v)
    else:
        b = v.get("b")
        check_core(c, int(v["a"]), int(b) if b is not None else 1, bt)
    print("input:", v)
    print("violations on the current tree:", c.violations or "none")
    return 1 if c.violations else 0
