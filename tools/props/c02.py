"""C02 — NI-BTF 128-bit values round-trip bit-exactly through every representation."""
from __future__ import annotations

import pickle
import struct

from props.common import (I128_MAX, I128_MIN, T64, edge_ticks, outcome, rand_ticks, render, show,
                          translation_validation, norm_model)

PID = "C02"
LEAN_MODULE = "NiVerif.Props.C02"
NAMESPACE = "Props.C02"
DRIVER = "drivers/C02.lean"
GEN_MODULES = ["TimeValueTuple", "TimeDelta", "DateTime", "BtDtypes", "BtElemSites"]
THEOREMS = [
    "to_tuple_spec", "to_tuple_range", "from_ticks_range", "from_tuple_to_tuple", "to_tuple_from_tuple",
    "from_tuple_rejects", "cvi_roundtrip", "pickle_roundtrip", "init_check_range",
    "dt_from_ticks_range", "dt_to_tuple_eq", "dt_from_tuple_to_tuple", "dt_from_tuple_rejects",
    "dt_from_offset_ticks", "dt_pickle_roundtrip", "cvi_layout", "record_bytes", "record_roundtrip",
    # tier T29: the element chains at every store / load site of the two array classes (Gen/BtElemSites)
    "store_chain_eq_model", "gen_store_sites_eq_model", "dt_from_tuple_eq", "load_chain_eq_model", "gen_load_sites_eq_model",
    "gen_array_element_roundtrip", "gen_sites_cover", "store_chain_refusals", "load_store_all", "gen_array_pickle_roundtrip",
]
RULE = ("tick values from the 128-bit edge lattice (powers of two ±2, int64/uint64 limits, fractions at decimal "
        "boundaries, out-of-range integers) plus seeded random values; each value goes through every entry path "
        "(from_ticks, from_tuple, from_offset, constructors, array construct/index/slice/assign/insert, tobytes, "
        "pickle 2-5) on the real code and through the generated Lean definitions; a case is non-trivial when the "
        "value is not 0 and distinct by (value, path)")
TRUSTED = [
    "hand model NiVerif/Model/Record.lean: NumPy packs the two record fields little-endian without padding "
    "(compared with ndarray.tobytes() and dtype.fields for every value explored)",
]
ASSUMPTIONS = [
    "NumPy stores Python ints into uint64/int64 record fields exactly; pickle round-trips Python ints",
    "arg_to_int is the identity on ints (non-int arguments are exercised separately: TypeError stream)",
]


def expected_tuple(t: int):
    return (t // T64, t % T64)


def check_value(ctx, t: int, bt):
    """The property as a predicate over observations of the real code only."""
    TimeDelta, DateTime, TimeValueTuple = bt.TimeDelta, bt.DateTime, bt.TimeValueTuple
    inr = I128_MIN <= t <= I128_MAX
    for cls in (TimeDelta, DateTime):
        o = outcome(cls.from_ticks, t)
        if not inr:
            if o != ("err", "OverflowError", "OverflowError"):
                ctx.violation(path=f"{cls.__name__}.from_ticks", ticks=t, observed=show(o),
                              required="OverflowError for a tick count outside the signed 128-bit range")
            continue
        if o[0] != "ok" or o[1].ticks != t or type(o[1].ticks) is not int:
            ctx.violation(path=f"{cls.__name__}.from_ticks", ticks=t, observed=show(o),
                          required="from_ticks(t).ticks == t")
            continue
        x = o[1]
        w, f = expected_tuple(t)
        tup = x.to_tuple()
        if tuple(tup) != (w, f) or tup.whole_seconds * T64 + tup.fractional_seconds != t:
            ctx.violation(path=f"{cls.__name__}.to_tuple", ticks=t, observed=str(tuple(tup)),
                          required=f"(floor(t/2^64), t mod 2^64) = {(w, f)}")
        o2 = outcome(cls.from_tuple, TimeValueTuple(w, f))
        if o2[0] != "ok" or o2[1].ticks != t:
            ctx.violation(path=f"{cls.__name__}.from_tuple", ticks=t, observed=show(o2), required="ticks == t")
        if tuple(TimeValueTuple.from_cvi(*tup.to_cvi())) != (w, f) or tup.to_cvi() != (f, w):
            ctx.violation(path="TimeValueTuple.cvi", ticks=t, observed=str(tup.to_cvi()), required=str((f, w)))
        for proto in range(2, pickle.HIGHEST_PROTOCOL + 1):
            y = pickle.loads(pickle.dumps(x, protocol=proto))
            if type(y) is not cls or y.ticks != t or not (y == x):
                ctx.violation(path=f"{cls.__name__}.pickle{proto}", ticks=t, observed=repr(getattr(y, 'ticks', y)),
                              required="identical tick count after pickling")
        if hash(x) != hash(cls.from_ticks(t)):
            ctx.violation(path=f"{cls.__name__}.hash", ticks=t, observed="hash differs", required="equal hashes")
        # the tick count may arrive as a NumPy integer scalar (SupportsIndex): the value is the same 128-bit integer
        import numpy as np
        for T in (np.int64, np.uint64, np.int32, np.uint8):
            info = np.iinfo(T)
            if not (info.min <= t <= info.max):
                continue
            o3 = outcome(cls.from_ticks, T(t))
            ok3 = o3[0] == "ok" and type(o3[1].ticks) is int and o3[1].ticks == t
            if ok3:
                y = o3[1]
                r3 = outcome(lambda: (tuple(y.to_tuple()), (y + TimeDelta.from_ticks(1)).ticks if cls is TimeDelta else (y + TimeDelta.from_ticks(1)).ticks,
                                      pickle.loads(pickle.dumps(y)).ticks))
                ok3 = r3 == ("ok", ((w, f), t + 1, t)) or (t + 1 > I128_MAX and r3[0] == "err")
            if not ok3:
                ctx.violation(path=f"{cls.__name__}.from_ticks({T.__name__})", ticks=t, observed=show(o3) if o3[0] != "ok" else f"ticks {o3[1].ticks!r} ({type(o3[1].ticks).__name__})",
                              required="the same value as from_ticks(int)")
                break
    if inr:
        d = DateTime.from_offset(TimeDelta.from_ticks(t))
        if d.ticks != t:
            ctx.violation(path="DateTime.from_offset", ticks=t, observed=d.ticks, required=t)


def check_tuple_rejects(ctx, w: int, f: int, bt):
    ok = -(1 << 63) <= w < (1 << 63) and 0 <= f < T64
    for cls in (bt.TimeDelta, bt.DateTime):
        o = outcome(cls.from_tuple, bt.TimeValueTuple(w, f))
        if ok:
            if o[0] != "ok" or o[1].ticks != w * T64 + f or tuple(o[1].to_tuple()) != (w, f):
                ctx.violation(path=f"{cls.__name__}.from_tuple", whole=w, frac=f, observed=show(o),
                              required="ticks == w*2^64+f and to_tuple() == (w, f)")
        elif o[:2] != ("err", "OverflowError"):
            ctx.violation(path=f"{cls.__name__}.from_tuple", whole=w, frac=f,
                          observed=show(o),
                          required="OverflowError (never wrapped, clamped or truncated)")
        # the two words may arrive as NumPy integer scalars (elements of int64 / uint64 arrays are): same integers, same result
        import numpy as np
        for TW, TF in ((np.int64, int), (int, np.uint64), (np.int64, np.uint64), (np.int32, np.uint8), (np.int16, int), (int, np.uint32)):
            if (TW is not int and not (np.iinfo(TW).min <= w <= np.iinfo(TW).max)) or (TF is not int and not (np.iinfo(TF).min <= f <= np.iinfo(TF).max)):
                continue
            o2 = outcome(cls.from_tuple, bt.TimeValueTuple(TW(w), TF(f)))
            same = (o2[0] == o[0]) and ((o[0] == "ok" and o2[1].ticks == o[1].ticks and type(o2[1].ticks) is int) or (o[0] == "err" and o2[1] == o[1]))
            if not same:
                ctx.violation(path=f"{cls.__name__}.from_tuple({TW.__name__}, {TF.__name__})", whole=w, frac=f,
                              observed=show(o2) if o2[0] != "ok" else f"ticks {o2[1].ticks!r}",
                              required=(f"ticks {o[1].ticks}" if o[0] == "ok" else "OverflowError") + " (the same as for plain ints)")
                break


def check_arrays(ctx, values: list[int], bt):
    """Array storage: bytes, indexing, slicing, assignment, insertion, pickling."""
    import numpy as np
    for cls, acls, dtype in ((bt.TimeDelta, bt.TimeDeltaArray, bt.CVITimeIntervalDType),
                             (bt.DateTime, bt.DateTimeArray, bt.CVIAbsoluteTimeDType)):
        fields = {k: (str(v[0]), v[1]) for k, v in dtype.fields.items()}
        if fields != {"lsb": ("uint64", 0), "msb": ("int64", 8)} or dtype.itemsize != 16:
            ctx.violation(path=f"{acls.__name__}.dtype", observed=str(fields) + f" itemsize={dtype.itemsize}",
                          required="lsb: uint64 @0, msb: int64 @8, 16 bytes")
        objs = [cls.from_ticks(t) for t in values]
        arr = acls(objs)
        raw = arr._array.tobytes()
        want = b"".join(struct.pack("<Qq", t % T64, t // T64) for t in values)
        if raw != want:
            i = next(i for i in range(len(values)) if raw[16 * i:16 * i + 16] != want[16 * i:16 * i + 16])
            ctx.violation(path=f"{acls.__name__}.bytes", ticks=values[i], observed=raw[16 * i:16 * i + 16].hex(),
                          required=want[16 * i:16 * i + 16].hex())
        for i, t in enumerate(values):
            if arr[i].ticks != t or type(arr[i]) is not cls:
                ctx.violation(path=f"{acls.__name__}.getitem", ticks=t, observed=arr[i].ticks, required=t)
                break
        # the same records whatever kind of iterable delivered the values (generators and iterators can be read only once)
        for label, mk in (("iterator", lambda: acls(iter(objs))), ("generator", lambda: acls(x for x in objs)), ("tuple", lambda: acls(tuple(objs))),
                          ("extend-generator", lambda: (lambda z: (z.extend(x for x in objs), z)[1])(acls())),
                          ("iadd-iterator", lambda: (lambda z: (z.__iadd__(iter(objs)), z)[1])(acls()))):
            o = outcome(mk)
            if o[0] != "ok" or o[1]._array.tobytes() != want:
                ctx.violation(path=f"{acls.__name__} from a {label}", observed=show(o)[:120] if o[0] != "ok" else f"{len(o[1])} elements", required=f"{len(values)} records, bit-exact")
                break
        sl = arr[1::2]
        if [x.ticks for x in sl] != values[1::2]:
            ctx.violation(path=f"{acls.__name__}.slice", observed="slice differs", required="values[1::2]")
        # every statement that writes records (the store sites of Gen/BtElemSites): the single-element assignment, `insert`, and the
        # shrinking / growing / equal-length / extended branches of slice assignment, each on its own array; an exception on a valid
        # call is a value that did not survive, not a harness problem
        def pack(ts):
            return b"".join(struct.pack("<Qq", t % T64, t // T64) for t in ts)

        def site(label, start, op, model):
            a = acls([cls.from_ticks(x) for x in start])
            want_l = list(start)
            model(want_l)
            o = outcome(lambda: op(a))
            got = [x.ticks for x in a] if o[0] == "ok" else None
            if o[0] != "ok" or got != want_l or a._array.tobytes() != pack(want_l):
                ctx.violation(path=f"{acls.__name__}.{label}", ticks=want_l, observed=(show(o)[:160] if o[0] != "ok" else str(got)),
                              required=f"the array holds exactly {want_l}, bit-exact records")
                return False
            return True

        E = cls.from_ticks
        for k in range(0, min(len(values), 200), 4):
            v = values[k:k + 4]
            if len(v) < 4:
                break
            ok = (site("setitem", [0, 0, 0], lambda a: a.__setitem__(1, E(v[0])), lambda l: l.__setitem__(1, v[0]))
                  and site("setitem-negative", [0, 0, 0], lambda a: a.__setitem__(-1, E(v[1])), lambda l: l.__setitem__(-1, v[1]))
                  and site("insert", [v[0], v[1]], lambda a: (a.insert(0, E(v[2])), a.insert(5, E(v[3])), a.insert(-1, E(v[0]))),
                           lambda l: (l.insert(0, v[2]), l.insert(5, v[3]), l.insert(-1, v[0])))
                  and site("slice-assign grow", [v[3], 1], lambda a: a.__setitem__(slice(1, 2), [E(x) for x in v]),
                           lambda l: l.__setitem__(slice(1, 2), list(v)))
                  and site("slice-assign grow from empty", [v[0]], lambda a: a.__setitem__(slice(0, 0), [E(x) for x in v[1:]]),
                           lambda l: l.__setitem__(slice(0, 0), list(v[1:])))
                  and site("slice-assign shrink", [1, 2, 3, v[0]], lambda a: a.__setitem__(slice(0, 3), [E(v[1])]),
                           lambda l: l.__setitem__(slice(0, 3), [v[1]]))
                  and site("slice-assign equal", [1, 2, v[0]], lambda a: a.__setitem__(slice(0, 2), [E(v[1]), E(v[2])]),
                           lambda l: l.__setitem__(slice(0, 2), [v[1], v[2]]))
                  and site("slice-assign extended", [1, v[3], 3, 4], lambda a: a.__setitem__(slice(None, None, 2), [E(v[0]), E(v[1])]),
                           lambda l: l.__setitem__(slice(None, None, 2), [v[0], v[1]]))
                  and site("slice-assign reversed", [1, v[3], 3], lambda a: a.__setitem__(slice(None, None, -1), [E(v[0]), E(v[1]), E(v[2])]),
                           lambda l: l.__setitem__(slice(None, None, -1), [v[0], v[1], v[2]])))
            if not ok:
                break
        c = acls()
        o = outcome(lambda: [c.insert(0, cls.from_ticks(t)) for t in values[:100]])
        if o[0] != "ok" or [x.ticks for x in c] != list(reversed(values[:100])):
            ctx.violation(path=f"{acls.__name__}.insert", observed="insert sequence differs" if o[0] == "ok" else show(o)[:160], required="reversed values")
        o = outcome(lambda: c.__setitem__(slice(0, 0), objs[:50]))
        if o[0] != "ok" or [x.ticks for x in c][:50] != values[:50]:
            ctx.violation(path=f"{acls.__name__}.slice-assign", observed="differs" if o[0] == "ok" else show(o)[:160], required="values[:50]")
        # the array itself (and slices / copies of it) as the source of a slice assignment, an extension, an insertion: the records
        # written are the values the source had when the call was made
        small = values[:5]
        if len(small) >= 3:
            for (i, j) in ((1, 2), (0, 1), (1, 3), (2, 2), (0, 0), (1, 1), (0, len(small)), (2, 3), (1, len(small)), (3, 1)):
                for src_kind in ("self", "self-slice", "self-reversed", "other-array"):
                    a2 = acls([cls.from_ticks(t) for t in small])
                    l2 = list(small)
                    if src_kind == "self":
                        src, lsrc = a2, list(l2)
                    elif src_kind == "self-slice":
                        src, lsrc = a2[1:], l2[1:]
                    elif src_kind == "self-reversed":
                        src, lsrc = a2[::-1], l2[::-1]
                    else:
                        src, lsrc = acls([cls.from_ticks(t) for t in small]), list(l2)
                    r = outcome(lambda: a2.__setitem__(slice(i, j), src))
                    l2[i:j] = lsrc
                    got = [x.ticks for x in a2]
                    if r[0] != "ok" or got != l2 or a2._array.tobytes() != b"".join(struct.pack("<Qq", t % T64, t // T64) for t in l2):
                        ctx.violation(path=f"{acls.__name__}[{i}:{j}] = <{src_kind}>", observed=show(r)[:100] if r[0] != "ok" else str(got)[:200], required=str(l2)[:200])
                        break
        for proto in range(2, pickle.HIGHEST_PROTOCOL + 1):
            y = pickle.loads(pickle.dumps(arr, protocol=proto))
            if [x.ticks for x in y] != values or y._array.tobytes() != want:
                ctx.violation(path=f"{acls.__name__}.pickle{proto}", observed="differs", required="same elements")
            # the unpickled array is an array like any other: it takes a value into its 16-byte records and gives it back
            if values:
                probe = values[-1]
                r = outcome(lambda: y.__setitem__(0, cls.from_ticks(probe)))
                if r[0] != "ok" or y[0].ticks != probe or (len(values) > 1 and y[1].ticks != values[1]):
                    ctx.violation(path=f"{acls.__name__}.pickle{proto}.setitem", ticks=probe, observed=show(r) if r[0] != "ok" else y[0].ticks,
                                  required=probe)
        # short histories of every mutator on one array object (whatever bookkeeping an implementation keeps between calls - spare
        # room, views, cached records): after each step the records are bit for bit those of the list of tick counts
        import copy as _copy
        import random as _random
        hr = _random.Random(len(values) * 7919 + (0 if cls is bt.TimeDelta else 1))
        pool = (values[:40] or [0]) + [0, 1, -1, I128_MAX, I128_MIN]
        pool = [t for t in pool if I128_MIN <= t <= I128_MAX]
        for h in range(120):
            a3, l3, trace = acls(), [], []
            for step in range(hr.randint(3, 14)):
                op = hr.choice(["append", "append", "append", "reverse", "extend", "insert", "set", "pop", "del", "pickle", "copy", "slice-set", "iadd", "clear"])
                t = hr.choice(pool)
                try:
                    if op == "append": a3.append(cls.from_ticks(t)); l3.append(t)
                    elif op == "reverse": a3.reverse(); l3.reverse()
                    elif op == "extend": a3.extend([cls.from_ticks(t), cls.from_ticks(0)]); l3.extend([t, 0])
                    elif op == "iadd": a3 += [cls.from_ticks(t)]; l3 += [t]
                    elif op == "insert": k = hr.randint(-2, len(l3) + 1); a3.insert(k, cls.from_ticks(t)); l3.insert(k, t)
                    elif op == "set" and l3: k = hr.randrange(len(l3)); a3[k] = cls.from_ticks(t); l3[k] = t
                    elif op == "pop" and l3: a3.pop(); l3.pop()
                    elif op == "del" and l3: k = hr.randrange(len(l3)); del a3[k]; del l3[k]
                    elif op == "pickle": a3 = pickle.loads(pickle.dumps(a3, protocol=hr.randint(2, pickle.HIGHEST_PROTOCOL)))
                    elif op == "copy": a3 = hr.choice([_copy.copy, _copy.deepcopy])(a3)
                    elif op == "slice-set": k = hr.randint(0, len(l3)); a3[k:k + 1] = [cls.from_ticks(t), cls.from_ticks(1)]; l3[k:k + 1] = [t, 1]
                    elif op == "clear": a3.clear(); l3.clear()
                    err = None
                except Exception as e:                                  # noqa: BLE001 - any refusal of a valid call is reported below
                    err = f"{type(e).__name__}: {e}"
                trace.append(op)
                got = None if err else [x.ticks for x in a3]
                if err or got != l3 or a3._array.tobytes() != b"".join(struct.pack("<Qq", x % T64, x // T64) for x in l3):
                    ctx.violation(path=f"{acls.__name__} history", history=" ".join(trace), observed=(err or str(got))[:200], required=str(l3)[:200])
                    break
            else:
                continue
            break
        ctx.count("paths", f"{acls.__name__} x {len(values)}")


def run(ctx):
    import nitypes.bintime as bt
    n_rand = 4000 if ctx.quick else 150000
    values = edge_ticks() + [rand_ticks(ctx.rng) for _ in range(n_rand)]
    # -- oracle on the real code ------------------------------------------------------------
    for t in values:
        check_value(ctx, t, bt)
        ctx.case(("v", t), nontrivial=(t != 0))
        ctx.count("range", "in" if I128_MIN <= t <= I128_MAX else "out")
    inr = [t for t in values if I128_MIN <= t <= I128_MAX]
    for i in range(0, len(inr), 5000):
        check_arrays(ctx, inr[i:i + 5000], bt)
    edges64 = [-(1 << 63) - 1, -(1 << 63), -(1 << 63) + 1, -1, 0, 1, (1 << 63) - 1, 1 << 63, (1 << 64), -(1 << 64)]
    edgesf = [-1, 0, 1, T64 - 1, T64, T64 + 1, -T64, 1 << 63, (1 << 63) - 1]
    pairs = [(w, f) for w in edges64 for f in edgesf]
    pairs += [(ctx.rng.randint(-(1 << 65), 1 << 65), ctx.rng.randint(-(1 << 10), 1 << 66)) for _ in range(2000)]
    for w, f in pairs:
        check_tuple_rejects(ctx, w, f, bt)
        ctx.case(("tuple", w, f))
    # the CVI words (lsb unsigned, msb signed, 64 bits each) given directly: a word outside its range is rejected when a value is built
    # from it - never reinterpreted modulo 2**64
    words_l = [-1, -(1 << 63), -(1 << 64), 0, 1, T64 - 1, T64, T64 + 1, 1 << 65, (1 << 64) + (1 << 63)]
    words_m = [-(1 << 63) - 1, -(1 << 63), -1, 0, 1, (1 << 63) - 1, 1 << 63, (1 << 63) + 1, T64 - 1, T64, -(1 << 64), -(1 << 64) + 5]
    for l_ in words_l:
        for m_ in words_m:
            for cls_ in (bt.TimeDelta, bt.DateTime):
                o = outcome(lambda: cls_.from_tuple(bt.TimeValueTuple.from_cvi(l_, m_)).ticks)
                ok_words = 0 <= l_ < T64 and -(1 << 63) <= m_ < (1 << 63)
                ctx.case(("from_cvi", l_, m_, cls_.__name__))
                if (ok_words and o != ("ok", m_ * T64 + l_)) or (not ok_words and o[:2] != ("err", "OverflowError")):
                    ctx.violation(path=f"{cls_.__name__}.from_tuple(TimeValueTuple.from_cvi(lsb, msb))", lsb=l_, msb=m_, observed=show(o),
                                  required=(f"ticks {m_ * T64 + l_}" if ok_words else "OverflowError (a word outside its 64-bit range)"))
    # constructors: TimeDelta(int seconds) is seconds << 64, range-checked
    for s in [0, 1, -1, (1 << 63) - 1, 1 << 63, -(1 << 63), -(1 << 63) - 1, 1 << 64]:
        o = outcome(bt.TimeDelta, s)
        okr = -(1 << 63) <= s < (1 << 63)
        if (okr and (o[0] != "ok" or o[1].ticks != s << 64)) or (not okr and o[:2] != ("err", "OverflowError")):
            ctx.violation(path="TimeDelta(int)", seconds=s, observed=show(o), required="s<<64 or OverflowError")
        ctx.case(("ctor", s))
    # every public way of making a TimeDelta / DateTime yields a value inside the signed 128-bit range that round-trips, or raises:
    # seconds given as Decimal / float at the very ends of the range (where rounding the fraction carries into the whole seconds),
    # products and sums that land on the limits
    from decimal import Decimal
    import math
    import pickle as _pickle
    import decimal as _decimal
    ends = []
    _lc = _decimal.localcontext()
    _c = _lc.__enter__(); _c.prec = 120                 # the sums below need more than the default 28 digits
    for k in (17, 18, 19, 20, 21, 25, 30):
        for base in (1 << 63, -(1 << 63)):
            for sgn in (1, -1):
                ends.append(Decimal(base) + sgn * Decimal(10) ** -k)
    ends += [Decimal((1 << 63) - 1) + Decimal("0.99999999999999999998"), Decimal(-(1 << 63)) - Decimal("0.00000000000000000002"), Decimal((1 << 63) - 1) + Decimal("0.5"),
             math.nextafter(float(1 << 63), 0.0), -float(1 << 63), math.nextafter(-float(1 << 63), -math.inf), float(1 << 63)]
    _lc.__exit__(None, None, None)
    makers = [("TimeDelta(x)", lambda x: bt.TimeDelta(x)), ("TimeDelta(1) * x", lambda x: bt.TimeDelta(1) * x),
              ("DateTime.from_offset(TimeDelta(x))", lambda x: bt.DateTime.from_offset(bt.TimeDelta(x)))]
    for x in ends:
        for label, mk in makers:
            o = outcome(mk, x)
            ctx.case(("range-end", label, repr(x)))
            if o[0] != "ok":
                if o[1] != "OverflowError":
                    ctx.violation(path=label, value=repr(x), observed=show(o), required="a value in range or OverflowError")
                continue
            y = o[1]
            # never a clamped result: the ticks are the exact value's (within a tick of rounding), so a value whose exact tick count is
            # outside the range must have been refused
            from fractions import Fraction as _Fr
            exact = _Fr(x) * (1 << 64)
            if abs(_Fr(y.ticks) - exact) > (1 if "*" in label else _Fr(1, 2) + _Fr(1, 1 << 40)):
                ctx.violation(path=label, value=repr(x), observed=f"ticks {y.ticks}", required=f"OverflowError or the tick nearest to the exact count {float(exact)!r}; never a clamped value")
                continue
            r = outcome(lambda: (type(y).from_tuple(y.to_tuple()).ticks, _pickle.loads(_pickle.dumps(y)).ticks, type(y).from_ticks(y.ticks).ticks))
            if not (I128_MIN <= y.ticks <= I128_MAX) or r != ("ok", (y.ticks, y.ticks, y.ticks)):
                ctx.violation(path=label, value=repr(x), observed=f"ticks {y.ticks}; tuple / pickle / from_ticks round trip: {show(r)[:120]}",
                              required="a tick count in [-2^127, 2^127) that round-trips, or OverflowError")
    # integers far outside the range (thousands of digits) are rejected like any other integer outside it
    for huge in (10**5000, -10**5000, 1 << 20000, -(1 << 70000)):
        for label, f in (("TimeDelta.from_ticks", lambda: bt.TimeDelta.from_ticks(huge)), ("DateTime.from_ticks", lambda: bt.DateTime.from_ticks(huge)),
                         ("TimeDelta(int)", lambda: bt.TimeDelta(huge)), ("TimeDelta.from_tuple", lambda: bt.TimeDelta.from_tuple(bt.TimeValueTuple(huge, 0))),
                         ("DateTime.from_tuple", lambda: bt.DateTime.from_tuple(bt.TimeValueTuple(0, huge)))):
            o = outcome(f)
            ctx.case(("huge", label, huge.bit_length()))
            if o[:2] != ("err", "OverflowError"):
                ctx.violation(path=label, value=f"an integer of {huge.bit_length()} bits", observed=show(o)[:160], required="OverflowError")
    # wrong types never produce a value
    for bad in (1.5, "1", None, b"1"):
        for cls in (bt.TimeDelta, bt.DateTime):
            o = outcome(cls.from_ticks, bad)
            if o[:2] != ("err", "TypeError"):
                ctx.violation(path=f"{cls.__name__}.from_ticks", arg=repr(bad), observed=show(o), required="TypeError")
    # -- translation validation of the generated definitions --------------------------------
    TD, DT, TVT = bt.TimeDelta, bt.DateTime, bt.TimeValueTuple
    tv_vals = edge_ticks() + [rand_ticks(ctx.rng) for _ in range(1500 if ctx.quick else 20000)]
    cases = []
    for t in tv_vals:
        cases.append(("TimeDelta.from_ticks", [t], (lambda t=t: TD.from_ticks(t).ticks), True))
        cases.append(("DateTime.from_ticks", [t], (lambda t=t: DT.from_ticks(t).ticks), True))
        if I128_MIN <= t <= I128_MAX:
            cases.append(("TimeDelta.to_tuple", [t], (lambda t=t: tuple(TD.from_ticks(t).to_tuple())), False))
            cases.append(("DateTime.to_tuple", [t], (lambda t=t: tuple(DT.from_ticks(t).to_tuple())), False))
            cases.append(("TimeDelta.ticks", [t], (lambda t=t: TD.from_ticks(t).ticks), False))
            cases.append(("DateTime.from_offset", [t], (lambda t=t: DT.from_offset(TD.from_ticks(t)).ticks), False))
    for w, f in pairs:
        cases.append(("TimeDelta.from_tuple", [w, f], (lambda w=w, f=f: TD.from_tuple(TVT(w, f)).ticks), True))
        cases.append(("DateTime.from_tuple", [w, f], (lambda w=w, f=f: DT.from_tuple(TVT(w, f)).ticks), True))
        cases.append(("TimeValueTuple.to_cvi", [w, f], (lambda w=w, f=f: TVT(w, f).to_cvi()), False))
        cases.append(("TimeValueTuple.from_cvi", [w, f], (lambda w=w, f=f: tuple(TVT.from_cvi(w, f))), False))
    n = translation_validation(ctx, cases)
    ctx.extra["translation_validation_cases"] = n
    # -- correspondence of the hand-written record model with ndarray.tobytes() ---------------
    sample = [t for t in tv_vals if I128_MIN <= t <= I128_MAX][:3000]
    for cls, acls in ((TD, bt.TimeDeltaArray), (DT, bt.DateTimeArray)):
        arr = acls([cls.from_ticks(t) for t in sample])
        raw = arr._array.tobytes()
        items = [arr._array[i].item() for i in range(len(sample))]
        lines = [f"elem store {t}" for t in sample]
        lines += [f"rec encode {l} {m}" for l, m in items]
        lines += ["elem load " + " ".join(str(b) for b in raw[16 * i:16 * i + 16]) for i in range(len(sample))]
        res = ctx.model(lines)
        if res is None:
            break
        n = len(sample)
        for i, t in enumerate(sample):
            want = render(list(raw[16 * i:16 * i + 16]))
            if res[i] != want:
                ctx.mismatch(stream="element-store", request=lines[i], model_says=res[i], code_says=want)
            if res[n + i] != want:
                ctx.mismatch(stream="record-bytes", request=lines[n + i], model_says=res[n + i], code_says=want)
            got = "ok " + str(arr[i].ticks)
            if norm_model(res[2 * n + i]) != got:
                ctx.mismatch(stream="element-load", request=lines[2 * n + i], model_says=res[2 * n + i], code_says=got)
        ctx.extra["record_byte_comparisons"] = ctx.extra.get("record_byte_comparisons", 0) + 3 * n
    v0 = inr[len(inr) // 3]
    ctx.sample({"ticks": v0, "to_tuple": list(expected_tuple(v0)),
                "bytes": struct.pack("<Qq", v0 % T64, v0 // T64).hex()})
    ctx.sample({"ticks": I128_MIN, "to_tuple": list(expected_tuple(I128_MIN))})
    ctx.sample({"out_of_range": I128_MAX + 1, "expected": "OverflowError"})
    for c in cases[:3]:
        ctx.sample({"request": f"gen {c[0]} {c[1]}"})


def search(ctx):
    """Deeper failing-input search on the real code (run when an obligation or the tie broke)."""
    import nitypes.bintime as bt
    for _ in range(20000):
        check_value(ctx, rand_ticks(ctx.rng), bt)
        if ctx.violations:
            return


def replay(doc):
    import nitypes.bintime as bt

    class C:
        violations = []

        def violation(self, **kw):
            self.violations.append(kw)

        def count(self, *a, **k):
            pass
    c = C()
    v = doc["input"]
    if "ticks" in v:
        check_value(c, int(v["ticks"]), bt)
        if "Array" in v.get("path", ""):
            check_arrays(c, [int(v["ticks"]), 0, 1], bt)
    elif "whole" in v:
        check_tuple_rejects(c, int(v["whole"]), int(v["frac"]), bt)
    print("input:", v)
    print("violations on the current tree:", c.violations or "none")
    return 1 if c.violations else 0
