#!/usr/bin/env python3
"""Import, confirm and evaluate seeded changes (DESIGN.md §0.6).

  seedtest.py import <pid> <dir-with-X.diff/X_demo.py/X_meta.json>   copy into seeded/<pid>/<X>/ and confirm it:
        demo exits 0 on the clean tree, patch applies, the unedited test suite passes with it, demo exits 1 with it
  seedtest.py run [<pid>[/<X>] ...] [--tier quick] [--all-checks]       apply each seeded change to /repo, run the check of its
        property (or every check), undo, and record which checks report a violation in seeded/<pid>/<X>/result.json
  seedtest.py matrix                                                   print the catch matrix from the result files

/repo is always restored with `git checkout -- .` (never committed to).
"""
from __future__ import annotations

import json
import os
import shutil
import subprocess
import sys

V = os.path.dirname(os.path.dirname(os.path.abspath(__file__)))
REPO = os.environ.get("NIVERIF_REPO", "/repo")
PY = "/venv/bin/python"


def sh(cmd, **kw):
    return subprocess.run(cmd, shell=True, capture_output=True, text=True, **kw)


def clean_repo():
    sh(f"git -C {REPO} checkout -- . && git -C {REPO} clean -fdq src")
    st = sh(f"git -C {REPO} status --porcelain").stdout.strip()
    assert st == "", f"/repo not clean: {st}"


def apply(patch):
    r = sh(f"git -C {REPO} apply --whitespace=nowarn {patch}")
    if r.returncode != 0:
        # the patch was made against an earlier commit (a later fix: commit touched the same file): three-way merge
        r2 = sh(f"git -C {REPO} apply --whitespace=nowarn -3 {patch}")
        st = sh(f"git -C {REPO} diff --name-only --diff-filter=U").stdout.strip()
        sh(f"git -C {REPO} reset -q")            # keep the changes in the working tree only (nothing staged)
        if r2.returncode == 0 and not st:
            return True, ""
        sh(f"git -C {REPO} checkout -- .")
        return False, r.stderr + r2.stderr
    return True, ""


def run_demo(demo):
    r = sh(f"{PY} {demo}", cwd="/tmp", timeout=600)
    return r.returncode, (r.stdout + r.stderr)[-600:]


def cmd_import(pid, src):
    out = {}
    for x in ("A", "B", "C", "D", "E", "F", "G", "H", "I", "J", "K", "L", "M", "N", "O", "P", "Q"):
        d, dm, mt = (os.path.join(src, f"{x}{s}") for s in (".diff", "_demo.py", "_meta.json"))
        if not (os.path.exists(d) and os.path.exists(dm)):
            continue
        dst = os.path.join(V, "seeded", pid, x)
        os.makedirs(dst, exist_ok=True)
        shutil.copy(d, os.path.join(dst, "patch.diff"))
        shutil.copy(dm, os.path.join(dst, "demo.py"))
        meta = json.load(open(mt)) if os.path.exists(mt) else {}
        clean_repo()
        conf = {}
        conf["demo_exit_clean_tree"], _ = run_demo(os.path.join(dst, "demo.py"))
        ok, err = apply(os.path.join(dst, "patch.diff"))
        conf["patch_applies"] = ok
        if ok:
            t = sh(f"cd {REPO} && {PY} -m pytest -q -p no:cacheprovider --timeout=900 --continue-on-collection-errors 2>&1 | tail -3")
            conf["suite_tail"] = t.stdout.strip().splitlines()[-1] if t.stdout.strip() else ""
            conf["suite_passes"] = " passed" in conf["suite_tail"] and "failed" not in conf["suite_tail"] and "error" not in conf["suite_tail"]
            conf["demo_exit_changed_tree"], tail = run_demo(os.path.join(dst, "demo.py"))
            conf["demo_tail"] = tail[-300:]
        else:
            conf["apply_error"] = err[-300:]
        clean_repo()
        conf["confirmed"] = bool(ok and conf.get("suite_passes") and conf.get("demo_exit_changed_tree") == 1 and conf["demo_exit_clean_tree"] == 0)
        meta["confirmation"] = conf
        meta.setdefault("property", pid)
        json.dump(meta, open(os.path.join(dst, "meta.json"), "w"), indent=1)
        out[x] = conf["confirmed"]
        print(pid, x, "confirmed" if conf["confirmed"] else f"NOT confirmed: {conf}")
    return out


def all_pids():
    return [c["property_id"] for c in json.load(open(os.path.join(V, "MANIFEST.json")))["checks"]]


def cmd_run(targets, tier, all_checks, seeds):
    sel = []
    root = os.path.join(V, "seeded")
    for pid in sorted(os.listdir(root)):
        for x in sorted(os.listdir(os.path.join(root, pid))):
            key = f"{pid}/{x}"
            if not targets or pid in targets or key in targets:
                sel.append((pid, x))
    for pid, x in sel:
        dst = os.path.join(root, pid, x)
        meta = json.load(open(os.path.join(dst, "meta.json")))
        if not meta.get("confirmation", {}).get("confirmed"):
            print(pid, x, "skipped (not confirmed)")
            continue
        clean_repo()
        ok, err = apply(os.path.join(dst, "patch.diff"))
        res = {"tier": tier, "checks": {}}
        try:
            if not ok:
                res["error"] = "patch does not apply: " + err[-200:]
            else:
                for chk in (all_pids() if all_checks else [pid]):
                    for seed in seeds:
                        r = sh(f"cd {V} && VERIF_SEED={seed} ./check {chk} --tier {tier}", timeout=3600)
                        vio = [l for l in r.stdout.splitlines() if l.startswith("VIOLATION")]
                        res["checks"].setdefault(chk, []).append({"seed": seed, "exit": r.returncode, "violation_line": vio[0] if vio else None,
                                                                  "summary": (r.stdout.strip().splitlines() or [""])[-1][-200:]})
        finally:
            clean_repo()
        own = res["checks"].get(pid, [])
        res["caught_by_own_check"] = any(e["exit"] == 1 and e["violation_line"] for e in own)
        res["caught_with_failing_input"] = any(e["exit"] == 1 and e["violation_line"] and "no-failing-input-found" not in e["violation_line"] for e in own)
        res["caught_by"] = sorted(c for c, es in res["checks"].items() if any(e["exit"] == 1 and e["violation_line"] for e in es))
        prev = {}
        rp = os.path.join(dst, "result.json")
        if os.path.exists(rp):
            prev = json.load(open(rp))
        prev[tier + ("-all" if all_checks else "") + ("" if seeds == [0] else "-seeds" + ",".join(map(str, seeds)))] = res
        json.dump(prev, open(rp, "w"), indent=1)
        print(pid, x, ("PATCH DOES NOT APPLY" if res.get("error") else ("caught" if res["caught_by_own_check"] else "MISSED")), "by", res["caught_by"],
              "" if res["caught_with_failing_input"] or not res["caught_by_own_check"] else "(no failing input)")
    # regenerate the model from the clean tree so that a following manual build sees /repo
    sh(f"cd {V} && python3 tools/pylean/gen.py {REPO} lean/NiVerif/Gen")


def cmd_matrix():
    root = os.path.join(V, "seeded")
    rows = []
    for pid in sorted(os.listdir(root)):
        for x in sorted(os.listdir(os.path.join(root, pid))):
            dst = os.path.join(root, pid, x)
            meta = json.load(open(os.path.join(dst, "meta.json")))
            rp = os.path.join(dst, "result.json")
            res = json.load(open(rp)) if os.path.exists(rp) else {}
            q = res.get("quick", {})
            a = res.get("quick-all", {})
            t = res.get("thorough", {})
            rows.append((pid, x, meta.get("summary", "")[:110], meta.get("confirmation", {}).get("confirmed"),
                         q.get("caught_by_own_check"), q.get("caught_with_failing_input"), t.get("caught_by_own_check"), a.get("caught_by")))
    for r in rows:
        print(" | ".join(str(c) for c in r))


if __name__ == "__main__":
    a = sys.argv[1:]
    if a and a[0] == "import":
        cmd_import(a[1], a[2])
    elif a and a[0] == "run":
        tier = "quick"
        if "--tier" in a:
            tier = a[a.index("--tier") + 1]
        seeds = [0]
        if "--seeds" in a:
            seeds = [int(s) for s in a[a.index("--seeds") + 1].split(",")]
        targets = [t for t in a[1:] if not t.startswith("--") and t not in (tier,) and not t.replace(",", "").isdigit()]
        cmd_run(targets, tier, "--all-checks" in a, seeds)
    elif a and a[0] == "matrix":
        cmd_matrix()
    else:
        print(__doc__)
