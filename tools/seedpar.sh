#!/bin/bash
# Evaluate seeded changes in parallel on scratch clones of /repo and /verif (evaluation of the machinery only: the registered
# checks and the committed evidence always come from /verif run against /repo itself).
#   tools/seedpar.sh <workers> <seedtest args...>  (targets are read from stdin, one "Cxx/X" per line)
# Each worker gets /tmp/seedpar/w<i>/{repo,verif}; result.json files are merged back into /verif/seeded; the scratch tree is removed.
set -u
N=$1; shift
ROOT=/tmp/seedpar
rm -rf $ROOT; mkdir -p $ROOT
mapfile -t TARGETS
for i in $(seq 0 $((N-1))); do
  W=$ROOT/w$i; mkdir -p $W
  git clone -q /repo $W/repo
  mkdir -p $W/verif
  rsync -a --exclude .git --exclude replays --exclude 'evidence' /verif/ $W/verif/
  mkdir -p $W/verif/evidence
  : > $W/targets
done
i=0
for t in "${TARGETS[@]}"; do echo "$t" >> $ROOT/w$((i % N))/targets; i=$((i+1)); done
for i in $(seq 0 $((N-1))); do
  W=$ROOT/w$i
  ( cd $W/verif && NIVERIF_REPO=$W/repo python3 tools/seedtest.py run $(cat $W/targets | tr '\n' ' ') "$@" > $W/log 2>&1; echo done >> $W/log ) &
done
wait
for i in $(seq 0 $((N-1))); do
  W=$ROOT/w$i
  while read -r t; do [ -n "$t" ] && cp $W/verif/seeded/$t/result.json /verif/seeded/$t/result.json; done < $W/targets
  cat $W/log
done
rm -rf $ROOT
