"""Regenerate MANIFEST.json from the table below (keeps the file valid and the not_applicable list current)."""
import json, os
V = os.path.dirname(os.path.dirname(os.path.abspath(__file__)))
TECH = "Lean 4 theorems ({how}) + {tie}"
CHECKS = {
 "C02": dict(
  technique="Lean 4 proof (omega over integer kernels regenerated from the source) + translation validation + differential correspondence",
  text="Lean 4 theorems over definitions regenerated from the Python source on every run: from_ticks/from_tuple/to_tuple/to_cvi/from_cvi/constructor range check of TimeDelta and DateTime are proved to round-trip every signed 128-bit value and to reject everything else with OverflowError; the 16-byte record encode/decode is proved inverse with the documented byte layout. The unmodelled glue (NumPy record storage, pickle, array indexing paths) is tied by correspondence on an edge lattice plus seeded random values.",
  note="Trusted: Lean kernel, translator tools/pylean (validated each run against the Python functions), prelude NiVerif/Py (two's-complement and/or/shift semantics), hand model of NumPy packed little-endian records (compared with tobytes()), pickle and NumPy int storage."),
 "C03": dict(
  technique="Lean 4 proof (omega / case analysis over regenerated operator kernels and a hand model of mixed dispatch) + translation validation + differential correspondence",
  text="Every bintime operator (+ - neg abs *int //int // % divmod, DateTime±TimeDelta, DateTime−DateTime, comparisons, hash, bool) is regenerated from the source and proved equal to the integer operation on ticks with the 128-bit range check / ZeroDivisionError; divmod identity and (t+d)−t=d are proved for all operands. Mixed datetime/hightime operands: result kinds, trichotomy, operand-swap and the one-unit error bounds are proved over Model/Mixed.lean, which is compared with the real operators in every (op, kind, kind) cell and both operand orders.",
  note="Trusted: as C02 plus the hand model of Python's reflected-operator dispatch and of datetime/hightime integer semantics (Model/Mixed.lean, Model/Conv.lean; correspondence-checked). a*float and a*Decimal are decided by the oracle on the real code with exact Fractions; their proof is relative to decimal-context rounding (partial)."),
 "C04": dict(
  technique="Lean 4 proof (omega over regenerated conversion kernels + hand model of the remaining legs) + differential correspondence with exact-rational oracle",
  text="The six cross-family timedelta conversions and the absolute-time conversions are proved to be floor / nearest functions with error strictly below the coarser unit, exact when representable, monotone, with bintime→hightime→bintime and datetime→hightime→datetime identities and OverflowError exactly when the destination range is exceeded; bintime legs are regenerated from the source each run. The real convert_timedelta/convert_datetime/Timing.to_* are compared with the model and with exact Fractions on edge-biased values, including tzinfo/fold handling and int/float/Decimal seconds.",
  note="Trusted: as C02 plus Model/Conv.lean (datetime.timedelta normalisation, the exactness of the 64-digit Decimal leg for hightime values, field-copy conversions). Float/Decimal legs and total_seconds are decided by the oracle against exact Fractions; IEEE and decimal-context rounding are assumed (partial). Calendar fields are C14's model."),
 "C14": dict(
  technique="Lean 4 proof (omega over regenerated field kernels, kernel-checked table + induction-free calendar proof of CPython's _ord2ymd) + differential correspondence (exhaustive over all ordinals in thorough)",
  text="TimeDelta days/seconds/microseconds/femtoseconds/yoctoseconds (regenerated) are proved normalized and to add up to floor(ticks*10^24/2^64); the regenerated __str__ is proved equal to the normal-form rendering of the value rounded to 1e-18 s (carry included). For every DateTime tick in [min,max] year/month/day (CPython's ord2ymd, proved to invert ymd2ord and to return valid dates for all 3 652 059 ordinals) together with the regenerated hour..yoctosecond identify exactly floor(ticks*10^24/2^64) ys after the epoch, and rebuilding from the fields (and from repr's shortened argument list) returns the same ticks. The real properties, constructor, repr/eval and str are compared with the models and with an independent civil-from-days oracle.",
  note="Trusted: as C02 plus Model/Calendar.lean (CPython's calendar algorithm; compared with date.fromordinal/toordinal, exhaustively in the thorough tier), Model/DtFields.lean (hightime ordinal arithmetic) and the text specification Model/TdText.lean (compared with str(datetime.timedelta)). str(DateTime) delegates to hightime/CPython and is decided by the oracle only."),
 "C08": dict(
  technique="Lean 4 proof (induction over the generator loop and over the monotonicity scan) + differential correspondence with an exact-integer oracle",
  text="For every family range, timestamp, offset, interval (any sign or size), start index and count, list(get_timestamps(i,n)) of the model of REGULAR timing is proved to have exactly n items, the k-th being timestamp+offset+(i+k)*interval with no accumulated error, and to refuse only with OverflowError; IRREGULAR windows are proved to be exactly the stored slice or ValueError (never fewer items); missing timestamp information and negative arguments are proved to raise; the direction-accumulator scan is proved to accept exactly the non-decreasing or non-increasing sequences, and irregular construction to accept exactly those. The model is compared with real datetime/hightime/bintime Timing objects.",
  note="Trusted: hand model NiVerif/Model/Timing.lean (tie: correspondence on seeded real Timing objects of all three families, windows in every relation to the stored count, adversarial sequences); exactness of same-family datetime+timedelta arithmetic is CPython/hightime behaviour (modelled as integer arithmetic with range checks) and C03 for bintime. Members of mixed families are outside the property's quantifier."),
 "C20": dict(
  technique="Lean 4 proof (case analysis over argument-kind predicates) + exhaustive differential correspondence over the whole mode x kind^4 matrix",
  text="The model of Timing.__init__ (strategy lookup + the three validate_init_args bodies) is proved to accept exactly the member combinations each mode allows, to reject everything else with TypeError/ValueError, to store the members as given, to report has_* exactly, to raise RuntimeError for absent members, and equality is proved to be equality of mode and members; the named constructors are the general one. The real constructor is run on all 4 x 13^4 = 114 244 (mode, argument kinds) cells and compared with the model and with the property's table (exhaustive), plus equality pairs, named constructors and attribute protection.",
  note="Trusted: hand model NiVerif/Model/Timing.lean, tied exhaustively on the finite matrix (one representative value per argument kind). Immutability of public names is Python attribute protection: observed directly (setattr/delattr raise AttributeError); the model simply has no mutating operation."),
 "C16": dict(
  technique="Lean 4 proof (kernel-checked finite tables + induction over the double loop) over tables regenerated from _state.py + translation validation + differential correspondence (small shapes exhaustive)",
  text="The state table, enum and DigitalState.test are regenerated from the source each run; the table is proved equal to NI's compatibility table (specification constant), symmetric, reflexive, X-compatible with everything, DigitalState.test is proved to fail exactly on incompatible pairs and to raise ValueError for non-states; the model of waveform.test (argument checks + double loop) is proved, for all waveforms, signal counts and windows, to return exactly the list of incompatible positions with the right two sample indices, signal index and states in sample-then-column order, and ValueError for windows that do not fit or differing signal counts; to_char/from_char are proved inverse over '01ZLHXTV'.",
  note="Trusted: hand model NiVerif/Model/DigitalTest.lean of the argument checks and loops (tie: all 64 pairs, all 1x1/1x2/2x1 waveform pairs exhaustively in thorough, seeded 2x2 and larger ones with every window relation, bool/int8 dtypes, values 8..255); niTable in Props/C16.lean is the specification."),
 "C06": dict(
  technique="Lean 4 proof (induction over the mask loop, bit-level lemmas) over a hand model with regenerated kernels + translation validation + differential correspondence (8-bit ports exhaustive)",
  text="For every port width, mask that fits the port, bit order and sample value the model of from_port is proved to produce one row per sample and one column per set mask bit, the row being the sample's bits at the set positions (descending for 'big', ascending for 'little'), so signal i = column n-1-i holds the i-th lowest ('big') / highest ('little') set bit; masks wider than the port are proved rejected (ValueError), negative masks too; bit_mask and the port-width choice are regenerated from the source and proved to be 2^n-1 and the smallest of 8/16/32 bits. The real from_port/from_ports are run on every 8-bit value x mask x order, on 16/32-bit samples, and on list / native / byte-swapped / strided / read-only inputs, three state dtypes and row windows, and compared with the model and the bit formula.",
  note="Trusted: hand model NiVerif/Model/Port.lean (the while loop of _mask_to_column_indices, unpacking, column selection, row window); NumPy's ascontiguousarray/view/unpackbits are collapsed to a function of the integer values — that independence is established by the correspondence over representations, not by a theorem."),
}
def main():
    checks = []
    for pid, c in sorted(CHECKS.items()):
        checks.append({
            "property_id": pid, "quick_cmd": f"./check {pid} --tier quick", "thorough_cmd": f"./check {pid} --tier thorough",
            "evidence_file": f"evidence/{pid}.json", "replay_cmd_template": "./check replay {path}", "engine": "niverif-lean",
            "technique": c["technique"],
            "level_claimed": {"category": "proof", "text": c["text"], "design_ref": f"DESIGN.md §7 {pid}"},
            "level_note": c["note"]})
    na = [{"property_id": f"C{i:02d}", "reason": "check under construction in this build round; not claimed yet (no property is considered inapplicable to the technique)"}
          for i in range(1, 21) if f"C{i:02d}" not in CHECKS]
    m = {"version": 1, "setup_cmd": "./setup.sh",
         "hooks": {"guard": "NI_NITYPES_PYTHON_VERIF",
                   "enable": "no hooks are compiled into /repo; checks set NI_NITYPES_PYTHON_VERIF=1 for uniformity only",
                   "baseline_off_cmd": "cd /repo && /venv/bin/python -m pytest -ra -q -p no:cacheprovider --timeout=900 --continue-on-collection-errors",
                   "source_commits": [], "add_only": True},
         "engines": [{"name": "niverif-lean", "path": "lean", "serves_properties": sorted(CHECKS),
                      "kind_free_text": "Lean 4 package NiVerif: models regenerated from /repo by tools/pylean (Gen/), hand models (Model/), theorems (Props/), line-protocol drivers (drivers/); harness tools/check.py + tools/props/*.py"}],
         "checks": checks, "not_applicable": na,
         "notes": "Genuine defects repaired in /repo by fix: commits are recorded in known_findings.json (kind=fixed)."}
    json.dump(m, open(os.path.join(V, "MANIFEST.json"), "w"), indent=1)
if __name__ == "__main__":
    main()
