#!/venv/bin/python
"""`./check <Cxx> [--tier quick|thorough]` and `./check replay <file>`  — see DESIGN.md §2.3.

Steps: lock → regenerate Gen/*.lean from the repo's working tree → `lake build` the property's
theorem module → audit axioms / forbidden tokens → translation validation + correspondence +
oracle (tools/props/cXX.py) → known-findings pass → evidence → exit code.

Exit codes: 0 property held on everything explored; 1 violation (a `VIOLATION` line is printed);
2 infrastructure error / timeout (no VIOLATION line).
"""
from __future__ import annotations

import argparse
import fcntl
import importlib
import json
import os
import random
import re
import subprocess
import sys
import time
import traceback

VERIF = os.path.dirname(os.path.dirname(os.path.abspath(__file__)))
LEAN = os.path.join(VERIF, "lean")
REPO = os.environ.get("NIVERIF_REPO", "/repo")
sys.path.insert(0, os.path.join(REPO, "src"))
sys.path.insert(0, os.path.join(VERIF, "tools"))
os.environ.setdefault("NI_NITYPES_PYTHON_VERIF", "1")

ALLOWED_AXIOMS = {"propext", "Classical.choice", "Quot.sound"}
FORBIDDEN = re.compile(r"\bsorry\b|\badmit\b|^\s*axiom\s|native_decide|bv_decide|implemented_by|\bunsafe\s|maxHeartbeats\s+0\b")

BASE_TRUSTED = [
    "Lean 4.33.0 kernel (thorough tier: re-checked with leanchecker)",
    "axioms allowed per theorem: propext, Classical.choice, Quot.sound (audited with #print axioms each run)",
    "translator tools/pylean (Python AST -> Lean), validated each run by executing every generated "
    "definition against the Python function it came from",
    "Python-semantics prelude NiVerif/Py/*.lean (floor division, shifts, two's-complement bit ops, "
    "datetime/hightime integer models), differentially tested against CPython each run",
    "harness and oracles in tools/props/*.py observe and compare correctly",
]


def sh(cmd, cwd=None, timeout=None, input=None):
    p = subprocess.run(cmd, cwd=cwd, capture_output=True, text=True, timeout=timeout, input=input)
    return p.returncode, p.stdout, p.stderr


class Ctx:
    def __init__(self, pid: str, tier: str, seed: int, mod):
        self.pid, self.tier, self.seed, self.mod = pid, tier, seed, mod
        self.rng = random.Random(seed)
        self.repo = REPO
        self.quick = tier == "quick"
        self.t0 = time.time()
        self.gen_report: dict = {}
        self.broken: list[dict] = []          # broken obligations (theorem / translation / audit)
        self.axioms: dict[str, list[str]] = {}
        self.driver_ok = False
        self.evaluations = 0
        self.distinct: set = set()
        self.hist: dict[str, dict[str, int]] = {}
        self.samples: list = []
        self.violations: list[dict] = []      # property violated on the real code (oracle)
        self.mismatches: list[dict] = []      # model and code disagree (correspondence / translation validation)
        self.known_hits: dict[str, int] = {}
        self.exhaustive = False
        self.extra: dict = {}
        self.notes: list[str] = []
        self.known = load_known(pid)

    # ---- bookkeeping -------------------------------------------------------------------
    def count(self, family: str, key: str, n: int = 1):
        self.hist.setdefault(family, {})
        self.hist[family][key] = self.hist[family].get(key, 0) + n

    def case(self, key, nontrivial: bool = True, n: int = 1):
        """Record one explored case; `key` identifies it for distinctness."""
        self.evaluations += n
        if nontrivial:
            self.distinct.add(key if isinstance(key, (str, int, tuple)) else repr(key))

    def sample(self, s, limit: int = 12):
        if len(self.samples) < limit:
            self.samples.append(s)

    def violation(self, **kw):
        """A property violation observed on the real code."""
        kid = self.match_known(kw)
        if kid:
            self.known_hits[kid] = self.known_hits.get(kid, 0) + 1
            return
        if len(self.violations) < 50:
            self.violations.append(kw)

    def mismatch(self, **kw):
        if len(self.mismatches) < 50:
            self.mismatches.append(kw)

    def match_known(self, v: dict):
        for k in self.known:
            if k.get("kind") != "known":
                continue
            f = getattr(self.mod, "KNOWN_MATCH", {}).get(k["id"])
            if f and f(v):
                return k["id"]
        return None

    def elapsed(self):
        return time.time() - self.t0

    # ---- the Lean model behind the line protocol ------------------------------------------
    def model(self, lines: list[str], driver: str | None = None) -> list[str] | None:
        """Run request lines through the property's Lean driver; None if the driver is unavailable."""
        if not self.driver_ok:
            return None
        own = driver is None or driver == self.mod.DRIVER
        driver = driver or self.mod.DRIVER
        data = "\n".join(lines) + "\n"
        rc, out, err = sh(["lake", "env", "lean", "--run", driver], cwd=LEAN, input=data, timeout=3600)
        res = out.split("\n")
        if res and res[-1] == "":
            res.pop()
        if rc != 0 or len(res) != len(lines):
            self.broken.append({"stream": "driver" if own else f"driver {driver}", "lean_message": (err or out)[-2000:],
                                "detail": f"driver rc={rc}, {len(res)} responses for {len(lines)} requests"})
            if own:      # a shared side driver (e.g. drivers/Args.lean) that no longer builds does not silence the property's own model
                self.driver_ok = False
            return None
        return res


def load_known(pid: str) -> list[dict]:
    p = os.path.join(VERIF, "known_findings.json")
    if not os.path.exists(p):
        return []
    return [k for k in json.load(open(p)).get("findings", []) if k.get("property") == pid]


# --------------------------------------------------------------------------------------------
# Lean side
# --------------------------------------------------------------------------------------------

def regenerate(ctx: Ctx):
    rc, out, err = sh([sys.executable, os.path.join(VERIF, "tools/pylean/gen.py"), REPO,
                       os.path.join(LEAN, "NiVerif/Gen")])
    if rc != 0:
        ctx.broken.append({"stream": "translator", "lean_message": err[-2000:]})
        return
    ctx.gen_report = json.loads(out)
    needed = set(getattr(ctx.mod, "GEN_MODULES", []))
    for e in ctx.gen_report.get("errors", []):
        if e["module"] in needed:
            ctx.broken.append({"stream": f"translation of Gen.{e['module']}", "lean_message": e["error"]})


def theorem_spans(path: str) -> list[tuple[int, int, str]]:
    spans, cur, start = [], None, 0
    lines = open(path).read().split("\n")
    for i, l in enumerate(lines, 1):
        m = re.match(r"\s*(?:private\s+|protected\s+)?(theorem|lemma|example|def|abbrev|instance|macro)\s+([^\s:(\[{]*)", l)
        if m:
            if cur is not None:
                spans.append((start, i - 1, cur))
            cur, start = (m.group(2) if m.group(1) == "theorem" else f"<{m.group(1)} {m.group(2)}>"), i
    if cur is not None:
        spans.append((start, len(lines), cur))
    return spans


def build(ctx: Ctx):
    mod = ctx.mod
    targets = [mod.LEAN_MODULE, "NiVerif.DriverCore"] + list(getattr(mod, "EXTRA_LEAN_MODULES", []))
    rc, out, err = sh(["lake", "build"] + targets, cwd=LEAN, timeout=3000)
    if rc == 0:
        return True
    text = out + err
    props_file = mod.LEAN_MODULE.replace(".", "/") + ".lean"
    spans = theorem_spans(os.path.join(LEAN, props_file)) if os.path.exists(os.path.join(LEAN, props_file)) else []
    seen = set()
    for m in re.finditer(r"error: ([^\s:]+\.lean):(\d+):(\d+): (.*(?:\n(?!error:|warning:|info:|✖|✔|⚠|trace:).*)*)", text):
        f, line, msg = m.group(1), int(m.group(2)), m.group(4)
        if f.endswith(props_file):
            thm = next((n for a, b, n in spans if a <= line <= b), "?")
            if thm in seen:
                continue
            seen.add(thm)
            ctx.broken.append({"theorem": f"{mod.NAMESPACE}.{thm}" if not thm.startswith("<") else thm,
                               "file": f, "line": line, "lean_message": msg[:1500]})
        else:
            key = (f,)
            if key in seen:
                continue
            seen.add(key)
            ctx.broken.append({"file": f, "line": line, "lean_message": msg[:1500],
                               "detail": "a module the property's theorems depend on no longer compiles; "
                                         "every theorem of the property is unchecked"})
    if not ctx.broken or not seen:
        ctx.broken.append({"stream": "lake build", "lean_message": text[-3000:]})
    return False


def build_driver(ctx: Ctx):
    """The driver only needs the model/gen modules; it can work even if a theorem broke."""
    drv = ctx.mod.DRIVER
    rc, out, err = sh(["lake", "env", "lean", "--run", drv], cwd=LEAN, input="ping\n", timeout=1200)
    ctx.driver_ok = rc == 0 and out.strip() == "bad-op"
    if not ctx.driver_ok and not ctx.broken:
        ctx.broken.append({"stream": "driver", "lean_message": (err or out)[-2000:]})


def full_name(mod, t: str) -> str:
    return t if t.startswith(("Proofs.", "Model.", "Props.", "Py.")) else f"{mod.NAMESPACE}.{t}"


def audit(ctx: Ctx):
    mod = ctx.mod
    names = [full_name(mod, t) for t in mod.THEOREMS]
    os.makedirs(os.path.join(LEAN, ".audit"), exist_ok=True)
    path = os.path.join(LEAN, ".audit", f"{ctx.pid}.lean")
    with open(path, "w") as f:
        extra = "".join(f"import {m}\n" for m in getattr(mod, "EXTRA_LEAN_MODULES", []) if m.startswith("NiVerif.Props."))
        f.write(f"import {mod.LEAN_MODULE}\n" + extra + "".join(f"#print axioms {n}\n" for n in names))
    rc, out, err = sh(["lake", "env", "lean", path], cwd=LEAN, timeout=1200)
    text = out + err
    for n in names:
        m = re.search(r"'" + re.escape(n) + r"' depends on axioms: \[([^\]]*)\]", text)
        m0 = re.search(r"'" + re.escape(n) + r"' does not depend on any axioms", text)
        if m:
            ax = [a.strip() for a in m.group(1).replace("\n", " ").split(",") if a.strip()]
        elif m0:
            ax = []
        else:
            ctx.broken.append({"theorem": n, "lean_message": "theorem missing from the compiled module "
                                                              "(renamed, removed or not compiled)"})
            continue
        ctx.axioms[n] = ax
        bad = [a for a in ax if a not in ALLOWED_AXIOMS]
        if bad:
            ctx.broken.append({"theorem": n, "lean_message": f"depends on non-standard axioms {bad}"})
    # forbidden tokens in every hand-written / generated Lean source
    for root, _, files in os.walk(os.path.join(LEAN, "NiVerif")):
        for fn in files:
            if not fn.endswith(".lean"):
                continue
            p = os.path.join(root, fn)
            in_block = False
            for i, l in enumerate(open(p), 1):
                s = l
                if in_block:
                    if "-/" in s:
                        in_block = False
                        s = s.split("-/", 1)[1]
                    else:
                        continue
                while "/-" in s:
                    pre, rest = s.split("/-", 1)
                    if "-/" in rest:
                        s = pre + rest.split("-/", 1)[1]
                    else:
                        s = pre
                        in_block = True
                s = s.split("--", 1)[0]
                if FORBIDDEN.search(s):
                    ctx.broken.append({"file": os.path.relpath(p, LEAN), "line": i,
                                       "lean_message": f"forbidden token in Lean source: {l.strip()[:120]}"})


def leanchecker(ctx: Ctx):
    mods = [ctx.mod.LEAN_MODULE]
    t = time.time()
    try:
        rc, out, err = sh(["lake", "env", "leanchecker"] + mods, cwd=LEAN, timeout=3000)
    except subprocess.TimeoutExpired:
        ctx.notes.append("leanchecker timed out (not counted)")
        return
    ctx.extra["leanchecker"] = {"modules": mods, "rc": rc, "wall_s": round(time.time() - t, 1),
                                "tail": (out + err)[-300:]}
    if rc != 0:
        ctx.broken.append({"stream": "leanchecker", "lean_message": (out + err)[-1500:]})


# --------------------------------------------------------------------------------------------
# outcome
# --------------------------------------------------------------------------------------------

def write_replay(ctx: Ctx, kind: str, body: dict) -> str:
    os.makedirs(os.path.join(VERIF, "replays"), exist_ok=True)
    n = 0
    while True:
        path = os.path.join(VERIF, "replays", f"{ctx.pid}-{ctx.seed}-{n}.json")
        if not os.path.exists(path):
            break
        n += 1
    head = ""
    try:
        head = sh(["git", "-C", REPO, "rev-parse", "HEAD"])[1].strip()
    except Exception:
        pass
    doc = {"property": ctx.pid, "kind": kind, "seed": ctx.seed, "tier": ctx.tier, "repo": REPO,
           "repo_head": head, **body}
    with open(path, "w") as f:
        json.dump(doc, f, indent=1, default=str)
    return os.path.relpath(path, VERIF)


def write_evidence(ctx: Ctx, nviol: int, known_lines: list[str]):
    mod = ctx.mod
    obligations = len(mod.THEOREMS)
    broken_thms = {b.get("theorem") for b in ctx.broken if b.get("theorem")}
    whole = any(("theorem" not in b) for b in ctx.broken)
    discharged = 0 if whole else sum(
        1 for t in mod.THEOREMS
        if full_name(mod, t) in ctx.axioms and full_name(mod, t) not in broken_thms)
    cov = {
        "obligations": obligations,
        "discharged_count": discharged,
        "checker_cmd": f"cd lean && lake build {mod.LEAN_MODULE} && lake env lean .audit/{ctx.pid}.lean"
                       + (" && lake env leanchecker " + mod.LEAN_MODULE if not ctx.quick else ""),
        "trusted_base": BASE_TRUSTED + list(getattr(mod, "TRUSTED", [])),
        "theorems": {t: ctx.axioms.get(full_name(mod, t)) for t in mod.THEOREMS},
        "broken_obligations": ctx.broken,
        "generated_modules": {k: {kk: v.get(kk) for kk in ("ok", "source", "sha256", "defs", "consts")}
                              for k, v in ctx.gen_report.get("modules", {}).items()
                              if k in getattr(mod, "GEN_MODULES", [])},
        "evaluations": ctx.evaluations,
        "distinct_nontrivial": len(ctx.distinct),
        "rule": getattr(mod, "RULE", ""),
        "samples": ctx.samples or [{"obligation": t} for t in mod.THEOREMS[:3]],
        "exhaustive": bool(ctx.exhaustive),
        "histograms": ctx.hist,
        "correspondence_mismatches": len(ctx.mismatches),
        "known_findings_printed": known_lines,
        "known_hits": ctx.known_hits,
        "notes": ctx.notes,
    }
    if discharged > 0:
        cov["discharged"] = discharged      # (schema: ≥ 1; with nothing discharged the generic counts below apply)
    cov.update(ctx.extra)
    ev = {
        "property_id": ctx.pid, "tier": ctx.tier, "seed": ctx.seed, "level": "proof",
        "coverage": cov,
        "assumptions": list(getattr(mod, "ASSUMPTIONS", [])),
        "wall_s": round(ctx.elapsed(), 2),
        "violations": nviol,
    }
    os.makedirs(os.path.join(VERIF, "evidence"), exist_ok=True)
    with open(os.path.join(VERIF, "evidence", f"{ctx.pid}.json"), "w") as f:
        json.dump(ev, f, indent=1, default=str)


def run_check(pid: str, tier: str, seed: int) -> int:
    mod = importlib.import_module(f"props.{pid.lower()}")
    ctx = Ctx(pid, tier, seed, mod)
    lock = open(os.path.join(LEAN, ".lock"), "w")
    fcntl.flock(lock, fcntl.LOCK_EX)
    try:
        regenerate(ctx)
        ok = build(ctx)
        if ok:
            audit(ctx)
        build_driver(ctx)
        if ok and tier == "thorough" and not os.environ.get("NIVERIF_SKIP_LEANCHECKER"):
            leanchecker(ctx)
    finally:
        fcntl.flock(lock, fcntl.LOCK_UN)
    # correspondence + oracle (outside the build lock; the driver run only reads .olean files)
    try:
        mod.run(ctx)
    except Exception as e:
        tb = traceback.format_exc()
        frames = traceback.extract_tb(e.__traceback__)
        last_h = max((i for i, f in enumerate(frames) if os.path.abspath(f.filename).startswith(VERIF + os.sep)), default=-1)
        in_code = any(os.path.abspath(f.filename).startswith(os.path.abspath(REPO) + os.sep) for f in frames[last_h + 1:])
        if not in_code:
            print("harness crashed:\n" + tb, file=sys.stderr)
            return 2
        # The code under test raised where the harness (which passes on the unchanged tree) expects it not to: the
        # correspondence between the code and what the harness knows about it is broken at this call.
        hf = next((f for f in reversed(frames) if "/tools/props/" in f.filename), None)
        ctx.mismatch(stream="harness", detail="the code under test raised an exception the harness does not expect here",
                     exception=f"{type(e).__name__}: {e}"[:300],
                     raised_at=f"{frames[-1].filename}:{frames[-1].lineno} in {frames[-1].name}",
                     harness_call=(f"{hf.filename}:{hf.lineno}: {hf.line}" if hf else None), traceback=tb[-3000:])
    if (ctx.broken or ctx.mismatches) and not ctx.violations and hasattr(mod, "search"):
        try:
            mod.search(ctx)
        except Exception:
            ctx.notes.append("search crashed: " + traceback.format_exc()[-500:])
    # known findings: replay each witness on the real code
    known_lines = []
    for k in ctx.known:
        if k.get("kind") != "known":
            continue
        f = getattr(mod, "KNOWN_WITNESS", {}).get(k["id"])
        still = f(ctx) if f else None
        if still:
            known_lines.append(f"KNOWN-FINDING: property={pid} {k['id']}: {k['what']}")
        elif still is False:
            ctx.notes.append(f"known finding {k['id']} no longer reproduces")
    for l in known_lines:
        print(l)
    rc = 0
    nviol = 0
    if ctx.violations:
        v = ctx.violations[0]
        path = write_replay(ctx, "failing-input", {
            "input": v, "all_violations": ctx.violations[:20],
            "broken_obligations": ctx.broken, "correspondence_mismatches": ctx.mismatches[:10]})
        print(f"VIOLATION property={pid} replay={path}")
        nviol = len(ctx.violations)
        rc = 1
    elif ctx.broken or ctx.mismatches:
        path = write_replay(ctx, "no-failing-input-found", {
            "broken_obligations": ctx.broken, "correspondence_mismatches": ctx.mismatches[:20],
            "note": "a proof obligation or the model/code correspondence no longer checks; the search on the "
                    "real code found no input on which the property itself fails"})
        print(f"VIOLATION property={pid} replay={path} no-failing-input-found")
        nviol = 1
        rc = 1
    write_evidence(ctx, nviol, known_lines)
    summary = (f"{pid} {tier} seed={seed}: obligations={len(mod.THEOREMS)} broken={len(ctx.broken)} "
               f"evaluations={ctx.evaluations} distinct={len(ctx.distinct)} mismatches={len(ctx.mismatches)} "
               f"violations={len(ctx.violations)} known_hits={sum(ctx.known_hits.values())} "
               f"wall={ctx.elapsed():.1f}s")
    print(summary)
    return rc


def replay(path: str) -> int:
    doc = json.load(open(path))
    pid = doc["property"]
    mod = importlib.import_module(f"props.{pid.lower()}")
    print(f"replay of {path}: property={pid} kind={doc['kind']}")
    if doc["kind"] == "no-failing-input-found":
        for b in doc.get("broken_obligations", []):
            print("  broken:", json.dumps(b)[:400])
        for m in doc.get("correspondence_mismatches", [])[:5]:
            print("  mismatch:", json.dumps(m, default=str)[:400])
        print("re-run the check to see whether the obligations hold on the current tree")
        return 0
    if hasattr(mod, "replay"):
        return mod.replay(doc)
    print(json.dumps(doc.get("input"), indent=1, default=str))
    return 0


def main():
    if len(sys.argv) >= 3 and sys.argv[1] == "replay":
        sys.exit(replay(sys.argv[2]))
    ap = argparse.ArgumentParser()
    ap.add_argument("pid")
    ap.add_argument("--tier", default=os.environ.get("VERIF_TIER", "quick"), choices=["quick", "thorough"])
    ap.add_argument("--seed", type=int, default=int(os.environ.get("VERIF_SEED", "0") or 0))
    a = ap.parse_args()
    try:
        sys.exit(run_check(a.pid.upper(), a.tier, a.seed))
    except subprocess.TimeoutExpired as e:
        print(f"timeout: {e}", file=sys.stderr)
        sys.exit(2)


if __name__ == "__main__":
    main()
